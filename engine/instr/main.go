// instr rewrites Go source files so that every synchronisation operation passes through the zzmc runtime
// (see DESIGN.md section 3.1). stdlib only.
// usage: instr -out DIR -root ROOT [-imports-only] file.go ...   (absolute paths under ROOT; output name = relative path with / -> __)
package main

import (
	"bytes"
	"flag"
	"fmt"
	"go/ast"
	"go/format"
	"go/parser"
	"go/token"
	"os"
	"path/filepath"
	"reflect"
	"strconv"
	"strings"
)

const zz = "github.com/pion/ice/v4/internal/zzmc"

var fset = token.NewFileSet()

func main() {
	root := flag.String("root", "/repo", "")
	out := flag.String("out", "", "")
	io := flag.Bool("imports-only", false, "only alias the sync / sync/atomic imports (for _test.go files)")
	ownT := flag.String("own", "", "struct type whose field accesses are reported to zzmc.Access (ownership tracking)")
	flag.Parse()
	importsOnly = *io
	if *ownT != "" && !importsOnly {
		ownFields = map[string]bool{}
		for _, tn := range strings.Split(*ownT, ",") {
			for f := range structFields(flag.Args(), tn) {
				ownFields[f] = true
			}
		}
		if len(ownFields) == 0 {
			fmt.Fprintln(os.Stderr, "instr: struct type", *ownT, "not found")
			os.Exit(2)
		}
	}
	for _, f := range flag.Args() {
		rel, err := filepath.Rel(*root, f)
		if err != nil {
			panic(err)
		}
		do(*root, *out, rel, true)
	}
}

var generated = map[ast.Node]bool{}

// ---------------------------------------------------------------- ownership tracking

var ownFields map[string]bool

func structFields(files []string, typ string) map[string]bool {
	out := map[string]bool{}
	for _, fn := range files {
		f, err := parser.ParseFile(token.NewFileSet(), fn, nil, 0)
		if err != nil {
			panic(err)
		}
		ast.Inspect(f, func(n ast.Node) bool {
			ts, ok := n.(*ast.TypeSpec)
			if !ok || ts.Name.Name != typ {
				return true
			}
			if st, ok := ts.Type.(*ast.StructType); ok {
				for _, fl := range st.Fields.List {
					for _, nm := range fl.Names {
						out[nm.Name] = true
					}
				}
			}

			return false
		})
	}

	return out
}

// ownBase: is e a side-effect free expression that may denote a value of the tracked type?
func (c *ctx) ownBase(e ast.Expr) bool {
	switch x := e.(type) {
	case *ast.Ident:
		if c.imports[x.Name] || x.Name == "_" || x.Name == "nil" {
			return false
		}
		r := x.Name[0]

		return r < 'A' || r > 'Z' // an exported identifier may be a type name (method expression)
	case *ast.SelectorExpr:
		return c.ownBase(x.X)
	case *ast.ParenExpr:
		return c.ownBase(x.X)
	case *ast.StarExpr:
		return c.ownBase(x.X)
	case *ast.CallExpr: // accessor of the form x.agent()
		se, ok := x.Fun.(*ast.SelectorExpr)

		return ok && len(x.Args) == 0 && se.Sel.Name == "agent" && c.ownBase(se.X)
	}

	return false
}

type ownAcc struct {
	x     ast.Expr
	field string
	write bool
}

// ownCollect gathers the tracked-field accesses that the statement itself evaluates (nested blocks and
// function literals are handled when their own statement lists are rewritten).
func (c *ctx) ownCollect(s ast.Stmt) []ownAcc {
	var accs []ownAcc
	seen := map[string]bool{}
	shadow := map[string]bool{} // names the statement itself declares (if x := ...; x.f): not visible before it
	var rootIdent func(e ast.Expr) string
	rootIdent = func(e ast.Expr) string {
		switch x := e.(type) {
		case *ast.Ident:
			return x.Name
		case *ast.SelectorExpr:
			return rootIdent(x.X)
		case *ast.ParenExpr:
			return rootIdent(x.X)
		case *ast.StarExpr:
			return rootIdent(x.X)
		case *ast.CallExpr:
			return rootIdent(x.Fun)
		}

		return ""
	}
	declares := func(s ast.Stmt) {
		if as, ok := s.(*ast.AssignStmt); ok && as.Tok == token.DEFINE {
			for _, l := range as.Lhs {
				if id, ok := l.(*ast.Ident); ok {
					shadow[id.Name] = true
				}
			}
		}
	}
	add := func(se *ast.SelectorExpr, write bool) {
		if !ownFields[se.Sel.Name] || !c.ownBase(se.X) || shadow[rootIdent(se.X)] {
			return
		}
		var b bytes.Buffer
		_ = format.Node(&b, fset, se.X)
		k := fmt.Sprintf("%s.%s/%v", b.String(), se.Sel.Name, write)
		if seen[k] {
			return
		}
		seen[k] = true
		accs = append(accs, ownAcc{se.X, se.Sel.Name, write})
	}
	// root of an assignable expression: a.f, a.f[i], a.f.g, (*a.f) ...: the tracked field that is modified
	var lhsRoot func(e ast.Expr) *ast.SelectorExpr
	lhsRoot = func(e ast.Expr) *ast.SelectorExpr {
		switch x := e.(type) {
		case *ast.SelectorExpr:
			if ownFields[x.Sel.Name] && c.ownBase(x.X) {
				return x
			}

			return lhsRoot(x.X)
		case *ast.IndexExpr:
			return lhsRoot(x.X)
		case *ast.ParenExpr:
			return lhsRoot(x.X)
		case *ast.StarExpr:
			return lhsRoot(x.X)
		}

		return nil
	}
	var expr func(n ast.Node)
	expr = func(n ast.Node) {
		if n == nil || reflect.ValueOf(n).IsNil() {
			return
		}
		ast.Inspect(n, func(m ast.Node) bool {
			switch x := m.(type) {
			case *ast.FuncLit, *ast.BlockStmt:
				return false
			case *ast.SelectorExpr:
				add(x, false)
			case *ast.CallExpr:
				if id, ok := x.Fun.(*ast.Ident); ok && (id.Name == "delete" || id.Name == "clear") && len(x.Args) > 0 {
					if r := lhsRoot(x.Args[0]); r != nil {
						add(r, true)
					}
				}
			}

			return true
		})
	}
	var header func(s ast.Stmt)
	header = func(s ast.Stmt) {
		switch x := s.(type) {
		case nil:
		case *ast.LabeledStmt:
			header(x.Stmt)
		case *ast.AssignStmt:
			for _, l := range x.Lhs {
				if r := lhsRoot(l); r != nil {
					add(r, true)
				}
			}
			expr(x)
		case *ast.IncDecStmt:
			if r := lhsRoot(x.X); r != nil {
				add(r, true)
			}
			expr(x)
		case *ast.IfStmt:
			header(x.Init)
			declares(x.Init)
			expr(x.Cond)
			if e, ok := x.Else.(*ast.IfStmt); ok {
				header(e)
			}
		case *ast.ForStmt:
			header(x.Init)
			declares(x.Init)
			expr(x.Cond)
			header(x.Post)
		case *ast.RangeStmt:
			expr(x.X)
		case *ast.SwitchStmt:
			header(x.Init)
			declares(x.Init)
			expr(x.Tag)
			for _, cl := range x.Body.List {
				for _, e := range cl.(*ast.CaseClause).List {
					expr(e)
				}
			}
		case *ast.TypeSwitchStmt:
			header(x.Init)
			declares(x.Init)
			header(x.Assign)
		case *ast.SelectStmt:
			for _, cl := range x.Body.List {
				header(cl.(*ast.CommClause).Comm)
			}
		case *ast.BlockStmt:
		default:
			expr(s)
		}
	}
	header(s)

	return accs
}

func (c *ctx) ownStmts(s ast.Stmt) []ast.Stmt {
	if ownFields == nil || !c.full {
		return nil
	}
	switch s.(type) {
	case *ast.CaseClause, *ast.CommClause:
		return nil
	}
	var out []ast.Stmt
	for _, a := range c.ownCollect(s) {
		w := "false"
		if a.write {
			w = "true"
		}
		c.usedZZ = true
		out = append(out, stmt(call("Access", a.x, &ast.BasicLit{Kind: token.STRING, Value: strconv.Quote(a.field)}, c.site(s), ast.NewIdent(w))))
	}

	return out
}

var importsOnly bool

type ctx struct {
	file    string
	full    bool
	nsel    int
	nspawn  int
	usedZZ  bool
	imports map[string]bool
	selPre  []ast.Stmt
	errs    []string
}

func (c *ctx) site(n ast.Node) *ast.BasicLit {
	p := fset.Position(n.Pos())
	return &ast.BasicLit{Kind: token.STRING, Value: strconv.Quote(fmt.Sprintf("%s:%d", c.file, p.Line))}
}

func call(fn string, args ...ast.Expr) *ast.CallExpr {
	return &ast.CallExpr{Fun: &ast.SelectorExpr{X: ast.NewIdent("zzmc"), Sel: ast.NewIdent(fn)}, Args: args}
}

func stmt(e ast.Expr) ast.Stmt { return &ast.ExprStmt{X: e} }

func do(root, out, rel string, full bool) {
	src, err := os.ReadFile(filepath.Join(root, rel))
	if err != nil {
		panic(err)
	}
	f, err := parser.ParseFile(fset, rel, src, parser.ParseComments)
	if err != nil {
		panic(err)
	}
	// keep only header comments that are build constraints
	var header []string
	for _, cg := range f.Comments {
		if cg.End() < f.Package {
			for _, cm := range cg.List {
				if strings.HasPrefix(cm.Text, "//go:build") {
					header = append(header, cm.Text)
				}
			}
		}
	}
	f.Comments = nil
	f.Doc = nil
	c := &ctx{file: filepath.Base(rel), full: full, imports: map[string]bool{}}
	for _, im := range f.Imports {
		p, _ := strconv.Unquote(im.Path.Value)
		name := p[strings.LastIndex(p, "/")+1:]
		if im.Name != nil {
			name = im.Name.Name
		}
		c.imports[name] = true
		if strings.HasPrefix(name, "v") && len(name) <= 3 { // module major version suffix: the package name is the element before
			q := p[:strings.LastIndex(p, "/")]
			c.imports[q[strings.LastIndex(q, "/")+1:]] = true
		}
	}
	// imports
	hasRuntimeGosched := false
	for _, im := range f.Imports {
		p, _ := strconv.Unquote(im.Path.Value)
		switch p {
		case "sync":
			im.Path.Value = strconv.Quote(zz + "/msync")
			im.Name = ast.NewIdent("sync")
		case "sync/atomic":
			if full {
				im.Path.Value = strconv.Quote(zz + "/matomic")
				im.Name = ast.NewIdent("atomic")
			}
		}
	}
	// walk function bodies
	ast.Inspect(f, func(n ast.Node) bool {
		if importsOnly {
			return false
		}
		switch x := n.(type) {
		case *ast.BlockStmt:
			x.List = c.rewriteList(x.List)
		case *ast.CaseClause:
			x.Body = c.rewriteList(x.Body)
		case *ast.CommClause:
			x.Body = c.rewriteList(x.Body)
		case *ast.CallExpr:
			if se, ok := x.Fun.(*ast.SelectorExpr); ok {
				if id, ok := se.X.(*ast.Ident); ok {
					if id.Name == "runtime" && se.Sel.Name == "Gosched" && full {
						x.Fun = &ast.SelectorExpr{X: ast.NewIdent("zzmc"), Sel: ast.NewIdent("Yield")}
						x.Args = []ast.Expr{c.site(x)}
						c.usedZZ = true
						hasRuntimeGosched = true
					}
					if (id.Name == "time" || id.Name == "context") && se.Sel.Name == "AfterFunc" && len(x.Args) == 2 {
						x.Args[1] = call("WrapAfterFunc", c.site(x), x.Args[1])
						c.usedZZ = true
					}
				}
			}
		}
		return true
	})
	if len(c.errs) > 0 {
		fmt.Fprintln(os.Stderr, "INSTRUMENTER ERRORS in", rel)
		for _, e := range c.errs {
			fmt.Fprintln(os.Stderr, "  ", e)
		}
		os.Exit(2)
	}
	if c.usedZZ {
		addImport(f, zz, "zzmc")
	}
	var buf bytes.Buffer
	for _, h := range header {
		buf.WriteString(h + "\n\n")
	}
	if err := format.Node(&buf, fset, f); err != nil {
		panic(err)
	}
	if hasRuntimeGosched {
		buf.WriteString("\nvar _ = runtime.Gosched\n")
	}
	dst := filepath.Join(out, strings.ReplaceAll(rel, "/", "__"))
	_ = os.MkdirAll(filepath.Dir(dst), 0o755)
	if err := os.WriteFile(dst, buf.Bytes(), 0o644); err != nil {
		panic(err)
	}
}

func addImport(f *ast.File, path, name string) {
	spec := &ast.ImportSpec{Name: ast.NewIdent(name), Path: &ast.BasicLit{Kind: token.STRING, Value: strconv.Quote(path)}}
	for _, d := range f.Decls {
		if gd, ok := d.(*ast.GenDecl); ok && gd.Tok == token.IMPORT {
			gd.Specs = append(gd.Specs, spec)
			if gd.Lparen == token.NoPos {
				gd.Lparen = gd.Pos()
				gd.Rparen = gd.End()
			}
			return
		}
	}
	f.Decls = append([]ast.Decl{&ast.GenDecl{Tok: token.IMPORT, Specs: []ast.Spec{spec}}}, f.Decls...)
}

// hasRecv reports whether the statement contains a receive expression outside nested func literals / select.
func hasRecv(s ast.Stmt) bool {
	found := false
	ast.Inspect(s, func(n ast.Node) bool {
		switch x := n.(type) {
		case *ast.FuncLit, *ast.SelectStmt, *ast.BlockStmt:
			if n != ast.Node(s) {
				return false
			}
		case *ast.UnaryExpr:
			if x.Op == token.ARROW {
				found = true
			}
		}
		return true
	})
	return found
}

func isClose(s ast.Stmt) bool {
	es, ok := s.(*ast.ExprStmt)
	if !ok {
		return false
	}
	ce, ok := es.X.(*ast.CallExpr)
	if !ok {
		return false
	}
	id, ok := ce.Fun.(*ast.Ident)
	return ok && id.Name == "close" && len(ce.Args) == 1
}

func (c *ctx) rewriteList(list []ast.Stmt) []ast.Stmt {
	var out []ast.Stmt
	for _, s := range list {
		var label *ast.LabeledStmt
		inner := s
		if ls, ok := s.(*ast.LabeledStmt); ok {
			label = ls
			inner = ls.Stmt
		}
		if gs, ok := inner.(*ast.GoStmt); !ok || !generated[gs] {
			out = append(out, c.ownStmts(inner)...)
		}
		switch x := inner.(type) {
		case *ast.GoStmt:
			if generated[x] {
				out = append(out, s)
				continue
			}
			c.usedZZ = true
			blk := c.rewriteGo(x)
			if label != nil {
				label.Stmt = blk
				out = append(out, label)
			} else {
				out = append(out, blk)
			}
			continue
		}
		if !c.full {
			out = append(out, s)
			continue
		}
		switch x := inner.(type) {
		case *ast.SendStmt:
			c.usedZZ = true
			out = append(out, stmt(call("Point", c.site(x))), s, stmt(call("After", c.site(x))))
		case *ast.SelectStmt:
			c.usedZZ = true
			c.rewriteSelect(x)
			// the decision statements go before the (possibly labelled) select
			out = append(out, c.selPre...)
			out = append(out, s)
		case *ast.ExprStmt, *ast.AssignStmt, *ast.DeclStmt:
			switch {
			case isClose(inner):
				c.usedZZ = true
				out = append(out, stmt(call("Point", c.site(inner))), s)
			case hasRecv(inner):
				c.usedZZ = true
				out = append(out, stmt(call("Point", c.site(inner))), s, stmt(call("After", c.site(inner))))
			default:
				out = append(out, s)
			}
		case *ast.ReturnStmt:
			if hasRecv(inner) {
				c.usedZZ = true
				out = append(out, stmt(call("Point", c.site(inner))), s)
			} else {
				out = append(out, s)
			}
		case *ast.IfStmt, *ast.ForStmt, *ast.SwitchStmt, *ast.RangeStmt:
			// receives in headers are not supported (none in this code base); bodies are handled by the walk
			if hdrRecv(inner) {
				c.errs = append(c.errs, fmt.Sprintf("%s: receive in statement header not supported", fset.Position(inner.Pos())))
			}
			out = append(out, s)
		case *ast.DeferStmt:
			out = append(out, s)
		default:
			out = append(out, s)
		}
	}
	return out
}

func hdrRecv(s ast.Stmt) bool {
	chk := func(n ast.Node) bool {
		if n == nil {
			return false
		}
		f := false
		ast.Inspect(n, func(m ast.Node) bool {
			if _, ok := m.(*ast.FuncLit); ok {
				return false
			}
			if u, ok := m.(*ast.UnaryExpr); ok && u.Op == token.ARROW {
				f = true
			}
			return true
		})
		return f
	}
	switch x := s.(type) {
	case *ast.IfStmt:
		var init ast.Node
		if x.Init != nil {
			init = x.Init
		}
		return chk(init) || chk(x.Cond)
	case *ast.ForStmt:
		var a, b, d ast.Node
		if x.Init != nil {
			a = x.Init
		}
		if x.Cond != nil {
			b = x.Cond
		}
		if x.Post != nil {
			d = x.Post
		}
		return chk(a) || chk(b) || chk(d)
	case *ast.SwitchStmt:
		var a, b ast.Node
		if x.Init != nil {
			a = x.Init
		}
		if x.Tag != nil {
			b = x.Tag
		}
		return chk(a) || chk(b)
	case *ast.RangeStmt:
		return chk(x.X)
	}
	return false
}

func pure(e ast.Expr) bool {
	ok := true
	ast.Inspect(e, func(n ast.Node) bool {
		switch n.(type) {
		case *ast.CallExpr, *ast.FuncLit:
			ok = false
		case *ast.UnaryExpr:
			if n.(*ast.UnaryExpr).Op == token.ARROW {
				ok = false
			}
		}
		return true
	})
	return ok
}

func trivial(e ast.Expr) bool {
	switch x := e.(type) {
	case *ast.BasicLit:
		return true
	case *ast.Ident:
		return x.Name == "true" || x.Name == "false" || x.Name == "nil"
	}
	return false
}

// rewriteSelect hoists channel operands and send values into temporaries (evaluated once, in source order),
// lets zzmc.Select perform one communication, and redirects the original select to stand-in channels.
func (c *ctx) rewriteSelect(s *ast.SelectStmt) ast.Stmt {
	c.nsel++
	rname := fmt.Sprintf("_zr%d", c.nsel)
	hasDefault := "false"
	var pre []ast.Stmt
	var cases []ast.Expr
	idx := 0
	hoist := func(e ast.Expr, kind string) ast.Expr {
		if trivial(e) {
			return e
		}
		name := fmt.Sprintf("_z%s%d_%d", kind, c.nsel, idx)
		pre = append(pre, &ast.AssignStmt{Lhs: []ast.Expr{ast.NewIdent(name)}, Tok: token.DEFINE, Rhs: []ast.Expr{e}})
		return ast.NewIdent(name)
	}
	for _, cl := range s.Body.List {
		cc := cl.(*ast.CommClause)
		if cc.Comm == nil {
			hasDefault = "true"
			continue
		}
		i := &ast.BasicLit{Kind: token.INT, Value: strconv.Itoa(idx)}
		switch cm := cc.Comm.(type) {
		case *ast.SendStmt:
			ch := hoist(cm.Chan, "c")
			v := hoist(cm.Value, "v")
			cases = append(cases, call("S", ch, v))
			cm.Chan = call("StandS", ast.NewIdent(rname), i, ch)
			cm.Value = v
		case *ast.ExprStmt:
			u := cm.X.(*ast.UnaryExpr)
			ch := hoist(u.X, "c")
			cases = append(cases, call("R", ch))
			u.X = call("StandR", ast.NewIdent(rname), i, ch)
		case *ast.AssignStmt:
			u := cm.Rhs[0].(*ast.UnaryExpr)
			ch := hoist(u.X, "c")
			cases = append(cases, call("R", ch))
			u.X = call("StandR", ast.NewIdent(rname), i, ch)
		default:
			c.errs = append(c.errs, fmt.Sprintf("%s: unsupported comm clause", fset.Position(cc.Pos())))
		}
		idx++
	}
	args := append([]ast.Expr{c.site(s), ast.NewIdent(hasDefault)}, cases...)
	pre = append(pre, &ast.AssignStmt{Lhs: []ast.Expr{ast.NewIdent(rname)}, Tok: token.DEFINE, Rhs: []ast.Expr{call("Select", args...)}})
	c.selPre = pre
	return nil
}

func (c *ctx) rewriteGo(g *ast.GoStmt) ast.Stmt {
	c.nspawn++
	n := c.nspawn
	fn := fmt.Sprintf("_zf%d", n)
	lhs := []ast.Expr{ast.NewIdent(fn)}
	rhs := []ast.Expr{g.Call.Fun}
	var args []ast.Expr
	for i, a := range g.Call.Args {
		an := fmt.Sprintf("_za%d_%d", n, i)
		lhs = append(lhs, ast.NewIdent(an))
		rhs = append(rhs, a)
		args = append(args, ast.NewIdent(an))
	}
	enter := fmt.Sprintf("_ze%d", n)
	inner := &ast.CallExpr{Fun: ast.NewIdent(fn), Args: args, Ellipsis: g.Call.Ellipsis}
	if g.Call.Ellipsis != token.NoPos {
		inner.Ellipsis = 1
	}
	lit := &ast.FuncLit{
		Type: &ast.FuncType{Params: &ast.FieldList{}},
		Body: &ast.BlockStmt{List: []ast.Stmt{
			stmt(&ast.CallExpr{Fun: ast.NewIdent(enter)}),
			&ast.DeferStmt{Call: call("Exit")},
			stmt(inner),
		}},
	}
	ng := &ast.GoStmt{Call: &ast.CallExpr{Fun: lit}}
	generated[ng] = true
	return &ast.BlockStmt{List: []ast.Stmt{
		&ast.AssignStmt{Lhs: lhs, Tok: token.DEFINE, Rhs: rhs},
		&ast.AssignStmt{Lhs: []ast.Expr{ast.NewIdent(enter)}, Tok: token.DEFINE, Rhs: []ast.Expr{call("Spawn", c.site(g))}},
		ng,
	}}
}
