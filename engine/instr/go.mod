module instr

go 1.24
