// Package zzmc is the runtime of engine CS: a controlled scheduler for goroutines of instrumented
// source, living inside one testing/synctest bubble per execution, plus a stateless depth-first
// explorer over scheduler choices with deviation (delay) bounding. See DESIGN.md section 3.
//
// With no scheduler installed (cur == nil) every entry point is passive: Point returns at once,
// Select still performs exactly one communication through reflect, shims delegate to plain logic.
package zzmc

import (
	"bytes"
	"crypto/sha256"
	"encoding/hex"
	"fmt"
	"path/filepath"
	"reflect"
	"os"
	"runtime"
	"sort"
	"strconv"
	"strings"
	"sync"
	"testing"
	"testing/synctest"
	"time"
)

type thread struct {
	id      int
	name    string
	grant   chan int
	site    string
	parked  bool
	done    bool
	selN    int
	yielded bool
	harness bool
	waitFor map[int]bool // fair scheduling: threads owed a step before this yielder runs again
	// path is the thread's identity for ordering: registration index for harness threads, otherwise the parent's path
	// plus the spawn site and the parent's own count of spawns at that site. Unlike the creation order it does not
	// depend on how goroutines that run between two scheduling points interleave.
	path  string
	kids  map[string]int
	early bool // created before the scenario's threads were released
}

// Sched is the scheduler of one execution.
type Sched struct {
	mu        sync.Mutex
	byGoid    map[int64]*thread
	threads   []*thread
	prefix    []int
	nAlt      []int
	choice    []int
	Trace     []string
	Dead      string // "" | "deadlock" | "horizon"
	Steps     int
	setupDone bool
	focus     []string
	timeStep  time.Duration
	maxAdv    int
	Panics    []string // panics recovered on harness threads during this execution
	orphans   map[string]int
	altDesc   [][]string
}

// ExpectAlts is diagnostic only: the alternatives the parent execution saw at the deviation point of the execution in progress.
var ExpectAlts []string //nolint:gochecknoglobals

// ExpectAltsAll: the alternatives the parent execution saw at every choice point of the replayed prefix. A replay that
// sees other alternatives at any of them is not the same execution: reported at the first difference.
var ExpectAltsAll [][]string //nolint:gochecknoglobals

var cur *Sched //nolint:gochecknoglobals

// PathOrder selects the second canonical order of enabled threads: purely by path, i.e. a goroutine's children
// come before the threads registered after it. The default schedule is then another one, and a deviation-bounded
// exploration covers another neighbourhood of schedules.
var PathOrder bool //nolint:gochecknoglobals

// EarlyFail, when set, is called inside the bubble as soon as a deadlock / horizon is detected.
var EarlyFail func(Failure) //nolint:gochecknoglobals

// HorizonExit, when set, is called after EarlyFail on a livelock; it should end the process.
var HorizonExit func(Failure) //nolint:gochecknoglobals

// Active reports whether a scheduler is installed (harness fakes use it to decide whether to park).
func Active() bool { return cur != nil }

func goid() int64 {
	var buf [64]byte
	n := runtime.Stack(buf[:], false)
	f := bytes.Fields(buf[:n])
	id, _ := strconv.ParseInt(string(f[1]), 10, 64)

	return id
}

func (s *Sched) me() *thread {
	g := goid()
	s.mu.Lock()
	defer s.mu.Unlock()

	return s.byGoid[g]
}

func (s *Sched) newThread(name string) *thread {
	s.mu.Lock()
	defer s.mu.Unlock()
	th := &thread{id: len(s.threads), name: name, grant: make(chan int), kids: map[string]int{}, early: !s.setupDone}
	th.path = fmt.Sprintf("%03d:%s", th.id, name) // harness threads are registered by one goroutine, in program order
	s.threads = append(s.threads, th)

	return th
}

// newChild registers a goroutine spawned at leaf ("go@file:line") by the calling goroutine.
func (s *Sched) newChild(leaf string) *thread {
	g := goid()
	s.mu.Lock()
	defer s.mu.Unlock()
	th := &thread{id: len(s.threads), name: leaf, grant: make(chan int), kids: map[string]int{}, early: !s.setupDone}
	if parent := s.byGoid[g]; parent != nil {
		th.path = fmt.Sprintf("%s/%s#%d", parent.path, leaf, parent.kids[leaf])
		parent.kids[leaf]++
	} else { // spawned by a goroutine the scheduler does not know (library timer goroutine)
		th.path = fmt.Sprintf("~/%s#%d", leaf, s.orphans[leaf])
		s.orphans[leaf]++
	}
	s.threads = append(s.threads, th)

	return th
}

func (s *Sched) bind(th *thread) {
	s.mu.Lock()
	s.byGoid[goid()] = th
	s.mu.Unlock()
}

// Go starts a harness thread (identity = registration order).
func (s *Sched) Go(name string, f func()) {
	th := s.newThread(name)
	th.harness = true
	go func() {
		s.bind(th)
		park(s, th, "enter", 0)
		defer func() {
			// a panic of the code under test on a harness thread is a finding of that schedule, not the end of the
			// exploration (whatever the panicking call held stays held: a deadlock later in the execution is its consequence)
			if r := recover(); r != nil && name != "SETUP" {
				s.mu.Lock()
				s.Panics = append(s.Panics, fmt.Sprintf("PANIC-ON-%s(%v)", name, r))
				s.mu.Unlock()
			} else if r != nil {
				panic(r)
			}
			s.mu.Lock()
			th.done = true
			s.mu.Unlock()
		}()
		f()
	}()
}

// GoDaemon starts a harness-side goroutine that does not keep the execution alive (e.g. a reader).
func (s *Sched) GoDaemon(name string, f func()) {
	th := s.newThread(name)
	go func() {
		s.bind(th)
		park(s, th, "enter", 0)
		defer func() {
			s.mu.Lock()
			th.done = true
			s.mu.Unlock()
		}()
		f()
	}()
}

func park(s *Sched, th *thread, site string, selN int) int {
	s.mu.Lock()
	th.site = site
	th.selN = selN
	th.parked = true
	s.mu.Unlock()

	return <-th.grant
}

func (s *Sched) inFocus(site string) bool {
	for _, f := range s.focus {
		if strings.HasPrefix(site, f) {
			return true
		}
	}

	return false
}

// Point is a scheduling point before a synchronisation operation at site ("file.go:line").
func Point(site string) {
	s := cur
	if s == nil || !s.inFocus(site) {
		return
	}
	th := s.me()
	if th == nil {
		return
	}
	park(s, th, site, 0)
}

// HarnessPoint is a scheduling point that is active regardless of the focus set (used by fakes).
func HarnessPoint(site string) {
	s := cur
	if s == nil {
		return
	}
	if th := s.me(); th != nil {
		park(s, th, site, 0)
	}
}

// CallerSite returns "file.go:line" of the skip-th caller (used by the shims).
func CallerSite(skip int) string {
	_, file, line, _ := runtime.Caller(skip)

	return filepath.Base(file) + ":" + strconv.Itoa(line)
}

// After is the point right after a possibly blocking operation returned.
func After(site string) { Point(site + "+") }

// Woke is called by the shims when a thread resumes after it really had to wait (a mutex was held, a WaitGroup was
// not yet at zero, ...). Whatever the focus, the thread parks: otherwise it would run on concurrently with the thread
// whose step released it, and the explorer would neither own nor explore the order of the two.
func Woke(site string) {
	s := cur
	if s == nil {
		return
	}
	if th := s.me(); th != nil {
		park(s, th, site+"+", 0)
	}
}

// Yield is runtime.Gosched under the scheduler, with the CHESS fair-scheduling rule: the yielder is
// disabled until every thread that was enabled at this moment has taken a step or stopped being enabled.
func Yield(site string) {
	s := cur
	if s == nil || !s.inFocus(site) {
		runtime.Gosched()

		return
	}
	th := s.me()
	if th == nil {
		runtime.Gosched()

		return
	}
	s.mu.Lock()
	th.yielded = true
	th.waitFor = map[int]bool{}
	for _, o := range s.threads {
		if o != th && o.parked {
			th.waitFor[o.id] = true
		}
	}
	s.mu.Unlock()
	park(s, th, site+"~", 0)
}

// Spawn is called in the parent right before a rewritten go statement; the returned function runs first in the child.
func Spawn(site string) func() {
	s := cur
	if s == nil {
		return func() {}
	}
	Point(site)
	if s.me() == nil && s.setupDone {
		// spawned by a goroutine the scheduler does not know (library timer goroutine): still give it an identity
		_ = site
	}
	th := s.newChild("go@" + site)

	return func() {
		if cur != s {
			return
		}
		s.bind(th)
		park(s, th, "enter", 0)
	}
}

// Exit marks the calling spawned goroutine as finished.
func Exit() {
	s := cur
	if s == nil {
		return
	}
	// Exit is the deferred call itself, so it can recover: a panic of the code under test on a goroutine the library
	// spawned is a finding of that schedule (as on a harness thread), not the death of the worker process
	if r := recover(); r != nil {
		name := "library-goroutine"
		if th := s.me(); th != nil {
			name = th.name
		}
		s.mu.Lock()
		s.Panics = append(s.Panics, fmt.Sprintf("PANIC-ON-%s(%v)", name, r))
		s.mu.Unlock()
	}
	if th := s.me(); th != nil {
		s.mu.Lock()
		th.done = true
		s.mu.Unlock()
		ownLoopExit(th)
	}
}

// WrapAfterFunc gives a timer goroutine a creation-order identity.
func WrapAfterFunc(site string, f func()) func() {
	s := cur
	if s == nil {
		return f
	}
	th := s.newChild("timer@" + site)

	return func() {
		if cur != s {
			f()

			return
		}
		s.bind(th)
		park(s, th, "enter", 0)
		defer Exit()
		f()
	}
}

// ---------------------------------------------------------------- select

type Case struct {
	dir reflect.SelectDir
	ch  reflect.Value
	val reflect.Value
}

type Res struct {
	fired int
	rv    reflect.Value
	ok    bool
}

func R(ch any) Case        { return Case{reflect.SelectRecv, reflect.ValueOf(ch), reflect.Value{}} }
func S(ch any, v any) Case { return Case{reflect.SelectSend, reflect.ValueOf(ch), reflect.ValueOf(v)} }

// Select performs the communication of exactly one case itself; the rewritten select statement then
// runs over stand-in channels (StandR/StandS) so that it takes the same branch with the same bindings.
func Select(site string, hasDefault bool, cases ...Case) *Res {
	n := len(cases)
	k := 0
	s := cur
	var th *thread
	if s != nil {
		th = s.me()
	}
	if th != nil && !s.inFocus(site) {
		th = nil
	}
	if th != nil {
		k = park(s, th, site, n)
	}
	mk := func(c Case) reflect.SelectCase {
		sc := reflect.SelectCase{Dir: c.dir, Chan: c.ch}
		if c.dir == reflect.SelectSend {
			v := c.val
			et := c.ch.Type().Elem()
			if !v.IsValid() {
				v = reflect.Zero(et)
			} else if v.Type() != et {
				v = v.Convert(et)
			}
			sc.Send = v
		}

		return sc
	}
	for i := 0; i < n; i++ {
		idx := (k + i) % n
		if !cases[idx].ch.IsValid() || cases[idx].ch.IsNil() {
			continue
		}
		c, rv, ok := reflect.Select([]reflect.SelectCase{mk(cases[idx]), {Dir: reflect.SelectDefault}})
		if c == 0 {
			return &Res{idx, rv, ok}
		}
	}
	if hasDefault {
		return &Res{fired: -1}
	}
	// Nothing is ready: block on all cases. Two receive cases on one and the same channel (ctx.Done() of a context that
	// is the loop itself, next to the loop's done channel) would let the runtime choose between them at random when that
	// channel fires; only the one that comes first in the rotation chosen by the scheduler takes part.
	var all []reflect.SelectCase
	var idxs []int
	seenRecv := map[uintptr]bool{}
	for i := 0; i < n; i++ {
		idx := (k + i) % n
		if !cases[idx].ch.IsValid() || cases[idx].ch.IsNil() {
			continue
		}
		if cases[idx].dir == reflect.SelectRecv {
			if p := cases[idx].ch.Pointer(); seenRecv[p] {
				continue
			} else {
				seenRecv[p] = true
			}
		}
		all = append(all, mk(cases[idx]))
		idxs = append(idxs, idx)
	}
	if len(all) == 0 {
		select {} // a select over nil channels only blocks for ever, as in the original
	}
	c, rv, ok := reflect.Select(all)
	if th != nil && cur == s { // the scheduler may have been switched off (teardown) while this goroutine was blocked
		park(s, th, site+"+", 0)
	}

	return &Res{idxs[c], rv, ok}
}

func StandR[C any](r *Res, i int, c C) C {
	var zero C
	if r.fired != i {
		return zero
	}
	ct := reflect.TypeOf(c)
	ch := reflect.MakeChan(reflect.ChanOf(reflect.BothDir, ct.Elem()), 1)
	if r.ok {
		ch.Send(r.rv)
	} else {
		ch.Close()
	}

	return ch.Convert(ct).Interface().(C) //nolint:forcetypeassert
}

func StandS[C any](r *Res, i int, c C) C {
	var zero C
	if r.fired != i {
		return zero
	}
	ct := reflect.TypeOf(c)

	return reflect.MakeChan(reflect.ChanOf(reflect.BothDir, ct.Elem()), 1).Convert(ct).Interface().(C) //nolint:forcetypeassert
}

// ---------------------------------------------------------------- scheduler loop

func (s *Sched) loop(maxSteps int) {
	last := -1
	advances := 0
	for step := 0; ; step++ {
		synctest.Wait()
		s.mu.Lock()
		var en []*thread
		alive := 0
		for _, th := range s.threads {
			if !th.done && th.harness {
				alive++
			}
		}
		parkedSet := map[int]bool{}
		for _, th := range s.threads {
			if th.parked {
				parkedSet[th.id] = true
			}
		}
		for _, th := range s.threads {
			if th.parked && th.yielded {
				for id := range th.waitFor {
					if !parkedSet[id] {
						delete(th.waitFor, id) // blocked or finished: no longer owed a step
					}
				}
				if len(th.waitFor) == 0 {
					th.yielded = false
				}
			}
		}
		held := func(th *thread) bool { return !s.setupDone && th.harness && th.name != "SETUP" }
		for _, th := range s.threads {
			if th.parked && th.id == last && !th.yielded && !held(th) {
				en = append(en, th)
			}
		}
		first := len(en)
		for _, th := range s.threads {
			if th.parked && th.id != last && !th.yielded && !held(th) {
				en = append(en, th)
			}
		}
		// threads that exist when the scenario starts keep their registration order (the set-up runs under one forced
		// schedule); goroutines spawned later are ordered by path, never by the order in which they happened to be created
		sort.SliceStable(en[first:], func(i, j int) bool {
			a, b := en[first+i], en[first+j]
			if PathOrder {
				return a.path < b.path
			}
			if a.early != b.early {
				return a.early
			}
			if a.early {
				return a.id < b.id
			}

			return a.path < b.path
		})
		if len(en) == 0 { // only mutually waiting yielders left: release them all
			for _, th := range s.threads {
				if th.parked && th.yielded && !held(th) {
					th.yielded = false
					th.waitFor = nil
					en = append(en, th)
				}
			}
		}
		s.mu.Unlock()
		if alive == 0 && s.setupDone {
			return // every harness thread has finished: the execution is complete
		}
		if len(en) == 0 {
			if s.timeStep > 0 && advances < s.maxAdv {
				advances++
				if os.Getenv("VERIF_CS_DUMP") != "" && advances == 1 { // developer aid: who is waiting for the clock
					buf := make([]byte, 1<<20)
					os.Stderr.Write(buf[:runtime.Stack(buf, true)])
				}
				time.Sleep(s.timeStep) // nothing can move: let the virtual clock reach the next timer
				step--

				continue
			}
			if alive > 0 {
				s.Dead = "deadlock"
			}

			return
		}
		if step >= maxSteps {
			s.Dead = "horizon"

			return
		}
		type alt struct {
			th *thread
			k  int
		}
		var alts []alt
		for _, th := range en {
			if th.selN > 1 {
				for k := 0; k < th.selN; k++ {
					alts = append(alts, alt{th, k})
				}
			} else {
				alts = append(alts, alt{th, 0})
			}
		}
		grant := func(a alt) {
			s.mu.Lock()
			a.th.parked = false
			for _, th := range s.threads {
				if th != a.th && th.waitFor != nil {
					delete(th.waitFor, a.th.id)
				}
			}
			s.mu.Unlock()
			last = a.th.id
			a.th.grant <- a.k
		}
		if !s.setupDone {
			grant(alts[0]) // setup phase: default schedule forced, no choice points recorded
			step--

			continue
		}
		c := 0
		if len(s.choice) < len(s.prefix) {
			c = s.prefix[len(s.choice)]
			if c >= len(alts) {
				var now []string
				for _, a := range alts {
					now = append(now, fmt.Sprintf("%s@%s/%d", a.th.path, a.th.site, a.k))
				}
				panic(fmt.Sprintf("zzmc: replay divergence at choice %d: alternative %d of %d; enabled now %v; expected %v; trace %v", len(s.choice), c, len(alts), now, ExpectAlts, s.Trace))
			}
		}
		s.nAlt = append(s.nAlt, len(alts))
		var desc []string
		for _, a := range alts {
			desc = append(desc, fmt.Sprintf("%s@%s/%d", a.th.path, a.th.site, a.k))
		}
		s.altDesc = append(s.altDesc, desc)
		if k := len(s.altDesc) - 1; k < len(ExpectAltsAll) && k < len(s.prefix) {
			if fmt.Sprint(ExpectAltsAll[k]) != fmt.Sprint(desc) {
				panic(fmt.Sprintf("zzmc: replay divergence already at choice %d: enabled now %v; the parent execution saw %v; trace %v", k, desc, ExpectAltsAll[k], s.Trace))
			}
		}
		s.choice = append(s.choice, c)
		a := alts[c]
		s.Trace = append(s.Trace, fmt.Sprintf("%s@%s/%d", a.th.name, a.th.site, a.k))
		s.Steps++
		grant(a)
	}
}

// release lets every parked goroutine run freely (teardown phase): scheduler off.
func (s *Sched) release() {
	cur = nil
	for round := 0; round < 6; round++ {
		s.mu.Lock()
		var ps []*thread
		for _, th := range s.threads {
			if th.parked {
				th.parked = false
				ps = append(ps, th)
			}
		}
		s.mu.Unlock()
		if len(ps) == 0 && round > 0 {
			return
		}
		for _, p := range ps {
			p.grant <- 0
		}
		synctest.Wait()
	}
}

// ---------------------------------------------------------------- exploration

var (
	progressMu     sync.Mutex
	progressPrefix []int
	progressAt     time.Time
)

// Progress reports the schedule prefix of the execution in progress and when it was started (for a watchdog
// that lives outside the bubble: code spinning outside the scheduler's control never becomes durably blocked).
func Progress() ([]int, time.Time) {
	progressMu.Lock()
	defer progressMu.Unlock()

	return append([]int{}, progressPrefix...), progressAt
}

// Scenario describes one closed system. Setup runs inside a SETUP harness thread under the default
// schedule; it builds the system, registers the scenario's threads with s.Go and returns the oracle,
// evaluated after the execution has ended and the teardown has run.
type Scenario struct {
	Name     string
	Focus    []string // file-name prefixes whose Points are active
	Setup    func(s *Sched) (finish func(dead string) (outcome, failure string))
	MaxSteps int
	TimeStep time.Duration // >0: when nothing is enabled, advance the virtual clock by this much (at most MaxAdv times)
	MaxAdv   int
}

type Failure struct {
	Msg     string   `json:"msg"`
	Choices []int    `json:"choices"`
	Trace   []string `json:"trace"`
}

type Stats struct {
	Execs     int            `json:"execs"`
	Steps     int            `json:"steps"`
	Outcomes  map[string]int `json:"outcomes"`
	Failures  []Failure      `json:"failures"`
	NFailures int            `json:"n_failures"`
	Schedules int            `json:"distinct_schedules"`
	MaxChoice int            `json:"max_choice_points"`
	Capped    string         `json:"capped,omitempty"`
	Sample    []string       `json:"sample_trace,omitempty"`
}

type Options struct {
	Bound    int // maximal number of deviations (non-default choices); <0 = unbounded
	MaxExecs int
	Deadline time.Time
	Shard    int // explore only top-level alternatives with index%Shards == Shard
	Shards   int
	OnFail   func(f Failure)
}

func traceHash(tr []string) string {
	h := sha256.Sum256([]byte(strings.Join(tr, "\n")))

	return hex.EncodeToString(h[:8])
}

// RunOne executes the scenario once under the schedule given by prefix (default choices afterwards).
func RunOne(t *testing.T, sc Scenario, prefix []int) (s *Sched, outcome, failure string) {
	t.Helper()
	synctest.Test(t, func(*testing.T) {
		s = &Sched{byGoid: map[int64]*thread{}, orphans: map[string]int{}, prefix: prefix, focus: sc.Focus, timeStep: sc.TimeStep, maxAdv: sc.MaxAdv}
		cur = s
		var fin func(string) (string, string)
		s.Go("SETUP", func() {
			fin = sc.Setup(s)
			s.mu.Lock()
			s.setupDone = true
			s.mu.Unlock()
		})
		max := sc.MaxSteps
		if max == 0 {
			max = 2000
		}
		s.loop(max)
		if s.Dead == "horizon" {
			// threads are still runnable (spinning): they cannot be released without the scheduler, so the
			// bubble cannot be drained. Report and give up this process.
			f := Failure{Msg: "horizon: step cap reached with runnable threads (livelock)", Choices: append([]int{}, s.choice...), Trace: s.Trace}
			if EarlyFail != nil {
				EarlyFail(f)
			}
			if HorizonExit != nil {
				HorizonExit(f)
			}
			panic("zzmc: " + f.Msg + fmt.Sprintf(" choices=%v", f.Choices))
		}
		s.release()
		if fin == nil {
			failure = "setup did not complete"
			s.Dead = "deadlock"
		} else {
			outcome, failure = fin(s.Dead)
		}
		cur = nil
		if s.Dead != "" && EarlyFail != nil {
			// if goroutines stay blocked the bubble cannot end and the process dies: report first
			EarlyFail(Failure{Msg: s.Dead + ": " + failure, Choices: append([]int{}, s.choice...), Trace: s.Trace})
		}
		if len(s.Panics) > 0 {
			failure = strings.Join(s.Panics, " ") + " " + failure
		}
		if s.Dead == "deadlock" && failure == "" {
			failure = "deadlock: no enabled thread while a harness thread has not finished"
		}
		if s.Dead == "horizon" && failure == "" {
			failure = "horizon: step cap reached (livelock?)"
		}
		synctest.Wait()
	})

	return s, outcome, failure
}

// Explore enumerates every schedule with at most opts.Bound deviations from the default schedule.
func Explore(t *testing.T, sc Scenario, opts Options) Stats {
	t.Helper()
	st := Stats{Outcomes: map[string]int{}}
	seenSched := map[string]bool{}
	type item struct {
		prefix []int
		dev    int
		top    int
		expect []string
		palts  [][]string
	}
	stack := []item{{nil, 0, -1, nil, nil}}
	topCounter := 0
	for len(stack) > 0 {
		it := stack[len(stack)-1]
		stack = stack[:len(stack)-1]
		ExpectAlts = it.expect
		ExpectAltsAll = it.palts
		if opts.MaxExecs > 0 && st.Execs >= opts.MaxExecs {
			st.Capped = fmt.Sprintf("execution cap %d", opts.MaxExecs)

			break
		}
		if !opts.Deadline.IsZero() && time.Now().After(opts.Deadline) {
			st.Capped = "deadline"

			break
		}
		progressMu.Lock()
		progressPrefix, progressAt = append([]int{}, it.prefix...), time.Now()
		progressMu.Unlock()
		s, outcome, failure := RunOne(t, sc, it.prefix)
		st.Execs++
		st.Steps += s.Steps
		st.Outcomes[outcome]++
		if len(s.choice) > st.MaxChoice {
			st.MaxChoice = len(s.choice)
		}
		seenSched[traceHash(s.Trace)] = true
		if st.Sample == nil && len(it.prefix) > 0 {
			st.Sample = s.Trace
		}
		if failure != "" {
			// self-check: the same schedule must fail identically
			s2, _, f2 := RunOne(t, sc, s.choice)
			if f2 != failure || traceHash(s2.Trace) != traceHash(s.Trace) {
				failure = "ENGINE: schedule does not replay identically: first " + failure + " / second " + f2
			}
			st.NFailures++
			f := Failure{Msg: failure, Choices: append([]int{}, s.choice...), Trace: s.Trace}
			if len(st.Failures) < 10 {
				st.Failures = append(st.Failures, f)
			}
			if opts.OnFail != nil {
				opts.OnFail(f)
			}
		}
		var add []item
		for i := len(it.prefix); i < len(s.choice); i++ {
			if opts.Bound >= 0 && it.dev+1 > opts.Bound {
				break
			}
			for alt := 1; alt < s.nAlt[i]; alt++ {
				top := it.top
				if it.top < 0 {
					top = topCounter
					topCounter++
					if opts.Shards > 1 && top%opts.Shards != opts.Shard {
						continue
					}
				}
				p := make([]int, i+1)
				copy(p, s.choice[:i])
				p[i] = alt
				add = append(add, item{p, it.dev + 1, top, s.altDesc[i], s.altDesc[:i+1]})
			}
		}
		if it.top < 0 && opts.Shards > 1 && opts.Shard != 0 {
			// the default execution itself is counted by shard 0 only
			st.Execs--
			st.Outcomes[outcome]--
			if st.Outcomes[outcome] == 0 {
				delete(st.Outcomes, outcome)
			}
		}
		for i := len(add) - 1; i >= 0; i-- {
			stack = append(stack, add[i])
		}
	}
	st.Schedules = len(seenSched)

	return st
}
