// Package msync provides scheduler-aware replacements for the sync primitives used by pion/ice.
// Blocking happens on channels created inside the bubble (durable under testing/synctest), every
// potentially blocking operation is preceded by a scheduling point, and the shims also work with no
// scheduler installed (passive mode).
package msync

import (
	"sync"

	"github.com/pion/ice/v4/internal/zzmc"
)

type (
	Pool = sync.Pool
	Map  = sync.Map
)

var g sync.Mutex // protects the shims' own bookkeeping; never held across a park

type Mutex struct {
	held    bool
	waiters []chan struct{}
}

func (m *Mutex) Lock() {
	site := ""
	if zzmc.Active() {
		site = zzmc.CallerSite(2)
		zzmc.Point(site)
	}
	m.lock(site)
}

func (m *Mutex) lock(site string) {
	for {
		g.Lock()
		if !m.held {
			m.held = true
			g.Unlock()
			zzmc.LockEvent(m, true)

			return
		}
		c := make(chan struct{})
		m.waiters = append(m.waiters, c)
		g.Unlock()
		<-c
		zzmc.Woke(site)
	}
}

func (m *Mutex) TryLock() bool {
	if zzmc.Active() {
		zzmc.Point(zzmc.CallerSite(2))
	}
	g.Lock()
	defer g.Unlock()
	if m.held {
		return false
	}
	m.held = true
	zzmc.LockEvent(m, true)

	return true
}

func (m *Mutex) Unlock() {
	zzmc.LockEvent(m, false)
	g.Lock()
	if !m.held {
		g.Unlock()
		panic("msync: unlock of unlocked mutex")
	}
	m.held = false
	w := m.waiters
	m.waiters = nil
	g.Unlock()
	for _, c := range w {
		close(c)
	}
}

// RWMutex: readers share, writers exclude (no writer preference: the scheduler explores the orders).
type RWMutex struct {
	readers int
	writer  bool
	waiters []chan struct{}
}

func (m *RWMutex) wake() {
	w := m.waiters
	m.waiters = nil
	g.Unlock()
	for _, c := range w {
		close(c)
	}
}

func (m *RWMutex) Lock() {
	site := ""
	if zzmc.Active() {
		site = zzmc.CallerSite(2)
		zzmc.Point(site)
	}
	for {
		g.Lock()
		if !m.writer && m.readers == 0 {
			m.writer = true
			g.Unlock()
			zzmc.LockEvent(m, true)

			return
		}
		c := make(chan struct{})
		m.waiters = append(m.waiters, c)
		g.Unlock()
		<-c
		zzmc.Woke(site)
	}
}

func (m *RWMutex) Unlock() {
	zzmc.LockEvent(m, false)
	g.Lock()
	if !m.writer {
		g.Unlock()
		panic("msync: Unlock of unlocked RWMutex")
	}
	m.writer = false
	m.wake()
}

func (m *RWMutex) RLock() {
	site := ""
	if zzmc.Active() {
		site = zzmc.CallerSite(2)
		zzmc.Point(site)
	}
	for {
		g.Lock()
		if !m.writer {
			m.readers++
			g.Unlock()
			zzmc.LockEvent(m, true)

			return
		}
		c := make(chan struct{})
		m.waiters = append(m.waiters, c)
		g.Unlock()
		<-c
		zzmc.Woke(site)
	}
}

func (m *RWMutex) RUnlock() {
	zzmc.LockEvent(m, false)
	g.Lock()
	if m.readers <= 0 {
		g.Unlock()
		panic("msync: RUnlock of unlocked RWMutex")
	}
	m.readers--
	m.wake()
}

type Once struct {
	done    bool
	running bool
	wait    []chan struct{}
}

func (o *Once) Do(f func()) {
	site := ""
	if zzmc.Active() {
		site = zzmc.CallerSite(2)
		zzmc.Point(site)
	}
	for {
		g.Lock()
		if o.done {
			g.Unlock()

			return
		}
		if !o.running {
			o.running = true
			g.Unlock()
			defer func() {
				g.Lock()
				o.done = true
				o.running = false
				w := o.wait
				o.wait = nil
				g.Unlock()
				for _, c := range w {
					close(c)
				}
			}()
			f()

			return
		}
		c := make(chan struct{})
		o.wait = append(o.wait, c)
		g.Unlock()
		<-c
		zzmc.Woke(site)
	}
}

type WaitGroup struct {
	n    int
	wait []chan struct{}
}

func (w *WaitGroup) Add(d int) {
	if zzmc.Active() {
		zzmc.Point(zzmc.CallerSite(2))
	}
	w.add(d)
}

func (w *WaitGroup) add(d int) {
	g.Lock()
	w.n += d
	if w.n < 0 {
		g.Unlock()
		panic("sync: negative WaitGroup counter")
	}
	var ws []chan struct{}
	if w.n == 0 {
		ws = w.wait
		w.wait = nil
	}
	g.Unlock()
	for _, c := range ws {
		close(c)
	}
}

func (w *WaitGroup) Done() {
	if zzmc.Active() {
		zzmc.Point(zzmc.CallerSite(2))
	}
	w.add(-1)
}

func (w *WaitGroup) Go(f func()) {
	w.Add(1)
	go func() {
		defer w.Done()
		f()
	}()
}

func (w *WaitGroup) Wait() {
	site := ""
	if zzmc.Active() {
		site = zzmc.CallerSite(2)
		zzmc.Point(site)
	}
	g.Lock()
	if w.n == 0 {
		g.Unlock()

		return
	}
	c := make(chan struct{})
	w.wait = append(w.wait, c)
	g.Unlock()
	<-c
	zzmc.Woke(site)
}

// ---- the rest of the sync API, so that changes to the code under test keep compiling

type Locker = sync.Locker

// Cond is a scheduler-aware condition variable.
type Cond struct {
	L       Locker
	waiters []chan struct{}
}

func NewCond(l Locker) *Cond { return &Cond{L: l} }

func (c *Cond) Wait() {
	site := ""
	if zzmc.Active() {
		site = zzmc.CallerSite(2)
	}
	ch := make(chan struct{})
	g.Lock()
	c.waiters = append(c.waiters, ch)
	g.Unlock()
	c.L.Unlock()
	<-ch
	zzmc.Woke(site)
	c.L.Lock()
}

func (c *Cond) Signal() {
	if zzmc.Active() {
		zzmc.Point(zzmc.CallerSite(2))
	}
	g.Lock()
	var ch chan struct{}
	if len(c.waiters) > 0 {
		ch = c.waiters[0]
		c.waiters = c.waiters[1:]
	}
	g.Unlock()
	if ch != nil {
		close(ch)
	}
}

func (c *Cond) Broadcast() {
	if zzmc.Active() {
		zzmc.Point(zzmc.CallerSite(2))
	}
	g.Lock()
	w := c.waiters
	c.waiters = nil
	g.Unlock()
	for _, ch := range w {
		close(ch)
	}
}

func OnceFunc(f func()) func() {
	var o Once

	return func() { o.Do(f) }
}

func OnceValue[T any](f func() T) func() T {
	var o Once
	var v T

	return func() T {
		o.Do(func() { v = f() })

		return v
	}
}

func OnceValues[T1, T2 any](f func() (T1, T2)) func() (T1, T2) {
	var o Once
	var v1 T1
	var v2 T2

	return func() (T1, T2) {
		o.Do(func() { v1, v2 = f() })

		return v1, v2
	}
}
