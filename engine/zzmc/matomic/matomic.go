// Package matomic mirrors the complete API of sync/atomic: every operation is a scheduling point
// (when a scheduler is installed) followed by the real atomic operation.
package matomic

import (
	"sync/atomic"
	"unsafe"

	"github.com/pion/ice/v4/internal/zzmc"
)

func pt() {
	if zzmc.Active() {
		zzmc.Point(zzmc.CallerSite(3))
	}
}

type Bool struct{ v atomic.Bool }

func (b *Bool) Load() bool                   { pt(); return b.v.Load() }
func (b *Bool) Store(x bool)                 { pt(); b.v.Store(x) }
func (b *Bool) Swap(x bool) bool             { pt(); return b.v.Swap(x) }
func (b *Bool) CompareAndSwap(o, n bool) bool { pt(); return b.v.CompareAndSwap(o, n) }

type Int32 struct{ v atomic.Int32 }

func (i *Int32) Load() int32                      { pt(); return i.v.Load() }
func (i *Int32) Store(x int32)                    { pt(); i.v.Store(x) }
func (i *Int32) Add(d int32) int32                { pt(); return i.v.Add(d) }
func (i *Int32) Swap(x int32) int32               { pt(); return i.v.Swap(x) }
func (i *Int32) CompareAndSwap(o, n int32) bool   { pt(); return i.v.CompareAndSwap(o, n) }
func (i *Int32) And(m int32) int32                { pt(); return i.v.And(m) }
func (i *Int32) Or(m int32) int32                 { pt(); return i.v.Or(m) }

type Int64 struct{ v atomic.Int64 }

func (i *Int64) Load() int64                      { pt(); return i.v.Load() }
func (i *Int64) Store(x int64)                    { pt(); i.v.Store(x) }
func (i *Int64) Add(d int64) int64                { pt(); return i.v.Add(d) }
func (i *Int64) Swap(x int64) int64               { pt(); return i.v.Swap(x) }
func (i *Int64) CompareAndSwap(o, n int64) bool   { pt(); return i.v.CompareAndSwap(o, n) }
func (i *Int64) And(m int64) int64                { pt(); return i.v.And(m) }
func (i *Int64) Or(m int64) int64                 { pt(); return i.v.Or(m) }

type Uint32 struct{ v atomic.Uint32 }

func (i *Uint32) Load() uint32                    { pt(); return i.v.Load() }
func (i *Uint32) Store(x uint32)                  { pt(); i.v.Store(x) }
func (i *Uint32) Add(d uint32) uint32             { pt(); return i.v.Add(d) }
func (i *Uint32) Swap(x uint32) uint32            { pt(); return i.v.Swap(x) }
func (i *Uint32) CompareAndSwap(o, n uint32) bool { pt(); return i.v.CompareAndSwap(o, n) }
func (i *Uint32) And(m uint32) uint32             { pt(); return i.v.And(m) }
func (i *Uint32) Or(m uint32) uint32              { pt(); return i.v.Or(m) }

type Uint64 struct{ v atomic.Uint64 }

func (i *Uint64) Load() uint64                    { pt(); return i.v.Load() }
func (i *Uint64) Store(x uint64)                  { pt(); i.v.Store(x) }
func (i *Uint64) Add(d uint64) uint64             { pt(); return i.v.Add(d) }
func (i *Uint64) Swap(x uint64) uint64            { pt(); return i.v.Swap(x) }
func (i *Uint64) CompareAndSwap(o, n uint64) bool { pt(); return i.v.CompareAndSwap(o, n) }
func (i *Uint64) And(m uint64) uint64             { pt(); return i.v.And(m) }
func (i *Uint64) Or(m uint64) uint64              { pt(); return i.v.Or(m) }

type Uintptr struct{ v atomic.Uintptr }

func (i *Uintptr) Load() uintptr                    { pt(); return i.v.Load() }
func (i *Uintptr) Store(x uintptr)                  { pt(); i.v.Store(x) }
func (i *Uintptr) Add(d uintptr) uintptr            { pt(); return i.v.Add(d) }
func (i *Uintptr) Swap(x uintptr) uintptr           { pt(); return i.v.Swap(x) }
func (i *Uintptr) CompareAndSwap(o, n uintptr) bool { pt(); return i.v.CompareAndSwap(o, n) }

type Value struct{ v atomic.Value }

func (v *Value) Load() any                    { pt(); return v.v.Load() }
func (v *Value) Store(x any)                  { pt(); v.v.Store(x) }
func (v *Value) Swap(x any) any               { pt(); return v.v.Swap(x) }
func (v *Value) CompareAndSwap(o, n any) bool { pt(); return v.v.CompareAndSwap(o, n) }

type Pointer[T any] struct{ v atomic.Pointer[T] }

func (p *Pointer[T]) Load() *T                    { pt(); return p.v.Load() }
func (p *Pointer[T]) Store(x *T)                  { pt(); p.v.Store(x) }
func (p *Pointer[T]) Swap(x *T) *T                { pt(); return p.v.Swap(x) }
func (p *Pointer[T]) CompareAndSwap(o, n *T) bool { pt(); return p.v.CompareAndSwap(o, n) }

// ---- package-level functions

func AddInt32(p *int32, d int32) int32       { pt(); return atomic.AddInt32(p, d) }
func AddInt64(p *int64, d int64) int64       { pt(); return atomic.AddInt64(p, d) }
func AddUint32(p *uint32, d uint32) uint32   { pt(); return atomic.AddUint32(p, d) }
func AddUint64(p *uint64, d uint64) uint64   { pt(); return atomic.AddUint64(p, d) }
func AddUintptr(p *uintptr, d uintptr) uintptr { pt(); return atomic.AddUintptr(p, d) }

func LoadInt32(p *int32) int32       { pt(); return atomic.LoadInt32(p) }
func LoadInt64(p *int64) int64       { pt(); return atomic.LoadInt64(p) }
func LoadUint32(p *uint32) uint32    { pt(); return atomic.LoadUint32(p) }
func LoadUint64(p *uint64) uint64    { pt(); return atomic.LoadUint64(p) }
func LoadUintptr(p *uintptr) uintptr { pt(); return atomic.LoadUintptr(p) }
func LoadPointer(p *unsafe.Pointer) unsafe.Pointer { pt(); return atomic.LoadPointer(p) }

func StoreInt32(p *int32, v int32)       { pt(); atomic.StoreInt32(p, v) }
func StoreInt64(p *int64, v int64)       { pt(); atomic.StoreInt64(p, v) }
func StoreUint32(p *uint32, v uint32)    { pt(); atomic.StoreUint32(p, v) }
func StoreUint64(p *uint64, v uint64)    { pt(); atomic.StoreUint64(p, v) }
func StoreUintptr(p *uintptr, v uintptr) { pt(); atomic.StoreUintptr(p, v) }
func StorePointer(p *unsafe.Pointer, v unsafe.Pointer) { pt(); atomic.StorePointer(p, v) }

func SwapInt32(p *int32, v int32) int32       { pt(); return atomic.SwapInt32(p, v) }
func SwapInt64(p *int64, v int64) int64       { pt(); return atomic.SwapInt64(p, v) }
func SwapUint32(p *uint32, v uint32) uint32   { pt(); return atomic.SwapUint32(p, v) }
func SwapUint64(p *uint64, v uint64) uint64   { pt(); return atomic.SwapUint64(p, v) }
func SwapUintptr(p *uintptr, v uintptr) uintptr { pt(); return atomic.SwapUintptr(p, v) }
func SwapPointer(p *unsafe.Pointer, v unsafe.Pointer) unsafe.Pointer { pt(); return atomic.SwapPointer(p, v) }

func CompareAndSwapInt32(p *int32, o, n int32) bool       { pt(); return atomic.CompareAndSwapInt32(p, o, n) }
func CompareAndSwapInt64(p *int64, o, n int64) bool       { pt(); return atomic.CompareAndSwapInt64(p, o, n) }
func CompareAndSwapUint32(p *uint32, o, n uint32) bool    { pt(); return atomic.CompareAndSwapUint32(p, o, n) }
func CompareAndSwapUint64(p *uint64, o, n uint64) bool    { pt(); return atomic.CompareAndSwapUint64(p, o, n) }
func CompareAndSwapUintptr(p *uintptr, o, n uintptr) bool { pt(); return atomic.CompareAndSwapUintptr(p, o, n) }
func CompareAndSwapPointer(p *unsafe.Pointer, o, n unsafe.Pointer) bool {
	pt()

	return atomic.CompareAndSwapPointer(p, o, n)
}

func AndInt32(p *int32, m int32) int32     { pt(); return atomic.AndInt32(p, m) }
func AndInt64(p *int64, m int64) int64     { pt(); return atomic.AndInt64(p, m) }
func AndUint32(p *uint32, m uint32) uint32 { pt(); return atomic.AndUint32(p, m) }
func AndUint64(p *uint64, m uint64) uint64 { pt(); return atomic.AndUint64(p, m) }
func OrInt32(p *int32, m int32) int32      { pt(); return atomic.OrInt32(p, m) }
func OrInt64(p *int64, m int64) int64      { pt(); return atomic.OrInt64(p, m) }
func OrUint32(p *uint32, m uint32) uint32  { pt(); return atomic.OrUint32(p, m) }
func OrUint64(p *uint64, m uint64) uint64  { pt(); return atomic.OrUint64(p, m) }
