// Passive shims (probe): same API surface of sync/atomic as used by pion/ice.
package matomic

import (
	"sync/atomic"

	"github.com/pion/ice/v4/internal/zzmc"
)

func pt() { zzmc.Point(zzmc.CallerSite(3)) }

type (
	Bool   struct{ v atomic.Bool }
	Int32  struct{ v atomic.Int32 }
	Int64  struct{ v atomic.Int64 }
	Uint32 struct{ v atomic.Uint32 }
	Uint64 struct{ v atomic.Uint64 }
	Value  struct{ v atomic.Value }
)

type Pointer[T any] struct{ v atomic.Pointer[T] }

func (p *Pointer[T]) Load() *T   { pt(); return p.v.Load() }
func (p *Pointer[T]) Store(x *T) { pt(); p.v.Store(x) }

func (b *Bool) Load() bool   { pt(); return b.v.Load() }
func (b *Bool) Store(x bool) { pt(); b.v.Store(x) }

func (i *Int32) Load() int32                      { pt(); return i.v.Load() }
func (i *Int32) Store(x int32)                    { pt(); i.v.Store(x) }
func (i *Int32) Add(d int32) int32                { pt(); return i.v.Add(d) }
func (i *Int64) Load() int64                      { pt(); return i.v.Load() }
func (i *Int64) Store(x int64)                    { pt(); i.v.Store(x) }
func (i *Int64) Add(d int64) int64                { pt(); return i.v.Add(d) }
func (i *Uint32) Load() uint32                    { pt(); return i.v.Load() }
func (i *Uint32) Store(x uint32)                  { pt(); i.v.Store(x) }
func (i *Uint32) Add(d uint32) uint32             { pt(); return i.v.Add(d) }
func (i *Uint64) Load() uint64                    { pt(); return i.v.Load() }
func (i *Uint64) Store(x uint64)                  { pt(); i.v.Store(x) }
func (i *Uint64) Add(d uint64) uint64             { pt(); return i.v.Add(d) }
func (i *Uint64) CompareAndSwap(o, n uint64) bool { pt(); return i.v.CompareAndSwap(o, n) }

func (v *Value) Load() any                     { pt(); return v.v.Load() }
func (v *Value) Store(x any)                   { pt(); v.v.Store(x) }
func (v *Value) CompareAndSwap(o, n any) bool  { pt(); return v.v.CompareAndSwap(o, n) }

func AddInt64(p *int64, d int64) int64     { pt(); return atomic.AddInt64(p, d) }
func AddUint32(p *uint32, d uint32) uint32 { pt(); return atomic.AddUint32(p, d) }
func AddUint64(p *uint64, d uint64) uint64 { pt(); return atomic.AddUint64(p, d) }
func LoadInt32(p *int32) int32             { pt(); return atomic.LoadInt32(p) }
func LoadInt64(p *int64) int64             { pt(); return atomic.LoadInt64(p) }
func LoadUint32(p *uint32) uint32          { pt(); return atomic.LoadUint32(p) }
func LoadUint64(p *uint64) uint64          { pt(); return atomic.LoadUint64(p) }
func StoreInt32(p *int32, v int32)         { pt(); atomic.StoreInt32(p, v) }
func StoreInt64(p *int64, v int64)         { pt(); atomic.StoreInt64(p, v) }
func StoreUint32(p *uint32, v uint32)      { pt(); atomic.StoreUint32(p, v) }
func StoreUint64(p *uint64, v uint64)      { pt(); atomic.StoreUint64(p, v) }
