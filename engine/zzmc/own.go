package zzmc

// Ownership tracking (lockset discipline, Savage et al., "Eraser") for the fields of one struct type.
// The instrumenter inserts Access calls before every statement that reads or writes a field of that type.
// During the concurrent phase of a scenario (OwnStart .. OwnStop) every field must keep a non-empty set of
// locks common to all of its accesses, as soon as two different threads have touched it and one of them
// wrote. Being the task-loop goroutine counts as holding that loop's lock. A finished loop goroutine starts
// a new epoch (whoever waited for it is ordered after everything the loop did).

import (
	"fmt"
	"reflect"
	"sort"
	"strings"
	"sync"
	"sync/atomic"
)

type ownRec struct {
	lockset map[string]bool
	threads map[string]bool
	wrote   bool
	bare    map[string]bool // "site thread r|w" of accesses made with no lock at all
	typ     string
	obj     any // keeps the object alive, so that its address is not reused for another object while tracking is on
}

var own struct { //nolint:gochecknoglobals
	on       atomic.Bool
	mu       sync.Mutex
	typ      string
	extra    map[string]bool // further tracked types, with an exclusive (initialisation) state
	loopSite string
	epoch    int
	recs     map[string]*ownRec
	held     map[int64]map[string]int
	accesses int
}

// OwnOn reports whether tracking is active (the shims skip their bookkeeping otherwise).
func OwnOn() bool { return own.on.Load() }

// OwnStart begins the concurrent phase: fields of values whose dynamic type prints as typ are tracked;
// goroutines spawned at loopSite ("file.go:line") are task-loop goroutines.
func OwnStart(typ, loopSite string, extraTypes ...string) {
	own.mu.Lock()
	own.typ, own.loopSite, own.epoch = typ, loopSite, 0
	own.extra = map[string]bool{}
	for _, t := range extraTypes {
		own.extra[t] = true
	}
	own.recs = map[string]*ownRec{}
	own.held = map[int64]map[string]int{}
	own.accesses = 0
	own.mu.Unlock()
	own.on.Store(true)
}

// OwnStop ends tracking and returns one line per field whose discipline was broken, plus the number of accesses seen.
func OwnStop() (reports []string, accesses int) {
	own.on.Store(false)
	own.mu.Lock()
	defer own.mu.Unlock()
	for key, r := range own.recs {
		if len(r.threads) < 2 || !r.wrote || len(r.lockset) > 0 {
			continue
		}
		var bare []string
		for b := range r.bare {
			bare = append(bare, b)
		}
		sort.Strings(bare)
		field := key[strings.Index(key, ".")+1:]
		reports = append(reports, fmt.Sprintf("field %s of %s is written while shared and no lock is common to its accesses; unprotected: %s", field, r.typ, strings.Join(bare, ", ")))
	}
	sort.Strings(reports)
	own.recs = nil

	return reports, own.accesses
}

// LockEvent is called by the mutex shims.
func LockEvent(m any, acquire bool) {
	if !own.on.Load() {
		return
	}
	id := fmt.Sprintf("%p", m)
	g := goid()
	own.mu.Lock()
	defer own.mu.Unlock()
	h := own.held[g]
	if h == nil {
		h = map[string]int{}
		own.held[g] = h
	}
	if acquire {
		h[id]++
	} else if h[id] > 0 {
		h[id]--
		if h[id] == 0 {
			delete(h, id)
		}
	}
}

func ownLoopExit(th *thread) {
	if !own.on.Load() || !strings.HasPrefix(th.name, "go@"+own.loopSite) {
		return
	}
	own.mu.Lock()
	own.epoch++
	own.mu.Unlock()
}

// Access records one access to field of x at site.
func Access(x any, field, site string, write bool) {
	if !own.on.Load() || x == nil {
		return
	}
	rt := reflect.TypeOf(x)
	primary := rt.String() == own.typ
	if !primary && !own.extra[rt.String()] {
		return
	}
	s := cur
	if s == nil {
		return // teardown: the scheduler is off and thread identities are gone; only scheduled executions are judged
	}
	g := goid()
	name := fmt.Sprintf("goroutine#%d", g)
	{
		s.mu.Lock()
		if th := s.byGoid[g]; th != nil {
			name = th.name
			if strings.HasPrefix(th.name, "go@") || strings.HasPrefix(th.name, "timer@") {
				name = th.name + "#" + th.path
			}
		}
		s.mu.Unlock()
	}
	own.mu.Lock()
	defer own.mu.Unlock()
	if own.recs == nil {
		return
	}
	own.accesses++
	locks := map[string]bool{}
	for id := range own.held[g] {
		locks[id] = true
	}
	if strings.HasPrefix(name, "go@"+own.loopSite) {
		locks["loop:"+name] = true
	}
	key := fmt.Sprintf("%d:%x.%s", own.epoch, reflect.ValueOf(x).Pointer(), field)
	r := own.recs[key]
	if r == nil {
		r = &ownRec{threads: map[string]bool{}, bare: map[string]bool{}, lockset: locks, typ: rt.String(), obj: x}
		own.recs[key] = r
	} else {
		for id := range r.lockset {
			if !locks[id] {
				delete(r.lockset, id)
			}
		}
	}
	// objects of the extra types are created while tracking is on: what their creator does before a second thread has
	// seen them is initialisation (Eraser's exclusive state), only writes made once the object is shared count
	if primary || len(r.threads) > 1 || (len(r.threads) == 1 && !r.threads[name]) {
		r.wrote = r.wrote || write
	} else if write {
		r.lockset = locks // still exclusive: the lockset starts afresh with every write of the owner
	}
	r.threads[name] = true
	if len(locks) == 0 && len(r.bare) < 12 {
		rw := "read"
		if write {
			rw = "write"
		}
		tn := name
		if i := strings.Index(tn, "#"); i >= 0 {
			tn = tn[:i]
		}
		r.bare[site+" ("+rw+" on "+tn+")"] = true
	}
}
