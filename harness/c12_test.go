package ice

// C12 — the UDP mux delivers each datagram to the right connection and to no other.
// Sequential part: explicit-state BFS over operation sequences on a real UDPMuxDefault against a
// routing-table reference (engine VT). Concurrent part: engine CS scenarios (c12cs_test.go).

import (
	"errors"
	"encoding/json"
	"fmt"
	"io"
	"net"
	"net/netip"
	"os"
	"sort"
	"strings"
	"sync"
	"testing/synctest"
	"time"

	"github.com/pion/stun/v3"
)

func init() {
	registerCheck("C12", checkC12)

	vtModels["udpmux"] = func(cfg json.RawMessage) vtModel { return newMuxModel(cfg) }
}

type botPkt struct {
	data []byte
	from *net.UDPAddr
}

// botConn is the socket under the mux.
type botConn struct {
	in     chan botPkt
	closed chan struct{}
	once   sync.Once
	addr   *net.UDPAddr
}

func (b *botConn) ReadFrom(p []byte) (int, net.Addr, error) {
	select {
	case <-b.closed:
		return 0, nil, io.EOF
	default:
	}
	select {
	case k := <-b.in:
		select {
		case <-b.closed: // closed wins over queued data (a plain select would choose at random)
			return 0, nil, io.EOF
		default:
		}

		return copy(p, k.data), k.from, nil
	case <-b.closed:
		return 0, nil, io.EOF
	}
}
func (b *botConn) WriteTo(p []byte, _ net.Addr) (int, error) { return len(p), nil }
func (b *botConn) Close() error                               { b.once.Do(func() { close(b.closed) }); return nil }
func (b *botConn) LocalAddr() net.Addr                        { return b.addr }
func (b *botConn) SetDeadline(time.Time) error                { return nil }
func (b *botConn) SetReadDeadline(time.Time) error            { return nil }
func (b *botConn) SetWriteDeadline(time.Time) error           { return nil }

var muxSrc = map[string]*net.UDPAddr{ //nolint:gochecknoglobals
	"X":  {IP: net.ParseIP("192.0.2.1").To4(), Port: 5000},
	"Xm": {IP: net.ParseIP("::ffff:192.0.2.1"), Port: 5000}, // the same host in IPv4-mapped form
	"Y":  {IP: net.ParseIP("192.0.2.2").To4(), Port: 5000},
	"Z":  {IP: net.ParseIP("fe80::9"), Port: 5000, Zone: "eth0"}, // IPv6 link-local: the zone is part of the address
}

var muxCanon = map[string]string{"X": "X", "Xm": "X", "Y": "Y", "Z": "Z"} //nolint:gochecknoglobals

func muxFamily(src string) string {
	if src == "Z" {
		return "6"
	}

	return "4"
}

func muxPayload(kind string, seq int) []byte {
	switch kind {
	case "data":
		return []byte(fmt.Sprintf("\xffdata-%d", seq))
	case "nouser":
		m, _ := stun.Build(stun.BindingRequest, stun.TransactionID, stun.NewSoftware(fmt.Sprint(seq)), stun.Fingerprint)

		return m.Raw
	case "broken": // looks like STUN (cookie) but does not decode
		b := make([]byte, 24)
		b[1], b[3] = 0x01, 0xFF
		b[4], b[5], b[6], b[7] = 0x21, 0x12, 0xA4, 0x42
		b[23] = byte(seq)

		return b
	default:
		m, _ := stun.Build(stun.BindingRequest, stun.TransactionID, stun.NewUsername(kind), stun.NewSoftware(fmt.Sprint(seq)), stun.Fingerprint)

		return m.Raw
	}
}

type muxCfg struct {
	Depth       int `json:"depth"`
	WriteBuffer int `json:"write_buffer,omitempty"`
	// Kind selects what sits between the application and the socket(s): "" UDPMuxDefault; "addrport" the same over
	// a socket that offers netip.AddrPort I/O (the path a *net.UDPConn takes; handles are then used through their
	// AddrPort methods); "universal" / "universal-addrport" UniversalUDPMuxDefault (its STUN-intercepting wrapper in
	// front of the socket); "multi" MultiUDPMuxDefault over one mux per local address.
	Kind string `json:"kind,omitempty"`
	// (TCP mux model) Preset events are applied before the search starts and do not count towards the depth; StopRead
	// adds "client i stops / resumes reading" to the alphabet (with a small write buffer, so that it fills up)
	ReadBuf  int      `json:"read_buf,omitempty"` // (TCP mux model) packets a connection queues for its readers; 0 = 16
	Preset   []string `json:"preset,omitempty"`
	StopRead bool     `json:"stop_read,omitempty"`
}

// botConnAP adds the netip.AddrPort methods to the socket.
type botConnAP struct{ *botConn }

func (b botConnAP) ReadFromAddrPort(p []byte) (int, netip.AddrPort, error) {
	n, a, err := b.botConn.ReadFrom(p)
	if err != nil {
		return n, netip.AddrPort{}, err
	}

	return n, a.(*net.UDPAddr).AddrPort(), nil //nolint:forcetypeassert
}

func (b botConnAP) WriteToAddrPort(p []byte, _ netip.AddrPort) (int, error) { return len(p), nil }

type udpMuxFront interface {
	GetConn(ufrag string, addr net.Addr) (net.PacketConn, error)
	RemoveConnByUfrag(ufrag string)
	Close() error
}

// muxRef is the reference routing table. Connections are named by generation numbers.
type muxRef struct {
	reg    map[string]int // "ufrag/family" -> generation of the registered connection (0 = none)
	gen    int
	owner  map[string]int // canonical source address -> generation of the last live writer
	closed bool
	q      map[int][]string // expected FIFO per connection generation
}

type muxHandle struct {
	conn net.PacketConn
	gen  int
}

type muxModel struct {
	cfg      muxCfg
	bot      *botConn            // socket of the IPv4 local address (the only socket unless Kind is "multi")
	bot6     *botConn            // multi: socket of the IPv6 local address
	front    udpMuxFront         // what the application talks to
	ms       []*UDPMuxDefault    // the UDPMuxDefault instance(s) underneath, for the implementation-side state
	ref      *muxRef
	handles  map[string][]muxHandle // "ufrag/family" -> open handles (at most two)
	seq      int
	depth    int
	short    bool // the datagram of the current event is read with a buffer that is too small
	closedH  []muxHandle // handles closed by the application earlier in the history (they keep reading)
	problems []vtProblem
	removed  map[int]bool // generations removed by ufrag earlier in the history
	wroteTo  map[int]map[string]bool
	lastW    map[int]string // per connection generation: destination of its latest write
}

func newMuxModel(raw json.RawMessage) *muxModel {
	mm := &muxModel{handles: map[string][]muxHandle{}, removed: map[int]bool{}, wroteTo: map[int]map[string]bool{}}
	_ = json.Unmarshal(raw, &mm.cfg)
	mm.bot = &botConn{in: make(chan botPkt), closed: make(chan struct{}), addr: &net.UDPAddr{IP: net.IPv4zero, Port: 7000}}
	var sock net.PacketConn = mm.bot
	if strings.HasSuffix(mm.cfg.Kind, "addrport") {
		sock = botConnAP{mm.bot}
	}
	switch {
	case strings.HasPrefix(mm.cfg.Kind, "universal"):
		u := NewUniversalUDPMuxDefault(UniversalUDPMuxParams{UDPConn: sock, Logger: nopLogger{}, Net: vNet{}})
		mm.front, mm.ms = u, []*UDPMuxDefault{u.UDPMuxDefault}
	case mm.cfg.Kind == "multi":
		mm.bot.addr = &net.UDPAddr{IP: net.ParseIP("10.0.0.1").To4(), Port: 7000}
		mm.bot6 = &botConn{in: make(chan botPkt), closed: make(chan struct{}), addr: &net.UDPAddr{IP: net.ParseIP("2001:db8::1"), Port: 7000}}
		m4 := NewUDPMuxDefault(UDPMuxParams{UDPConn: mm.bot, Logger: nopLogger{}, Net: vNet{}})
		m6 := NewUDPMuxDefault(UDPMuxParams{UDPConn: mm.bot6, Logger: nopLogger{}, Net: vNet{}})
		mm.front, mm.ms = NewMultiUDPMuxDefault(m4, m6), []*UDPMuxDefault{m4, m6}
	default:
		m := NewUDPMuxDefault(UDPMuxParams{UDPConn: sock, Logger: nopLogger{}, Net: vNet{}})
		mm.front, mm.ms = m, []*UDPMuxDefault{m}
	}
	mm.ref = &muxRef{reg: map[string]int{}, owner: map[string]int{}, q: map[int][]string{}}
	synctest.Wait()

	return mm
}

func (mm *muxModel) problem(finding, format string, args ...any) {
	mm.problems = append(mm.problems, vtProblem{finding, fmt.Sprintf(format, args...)})
}

var muxKeys = []string{"u1/4", "u2/4", "u1/6"} //nolint:gochecknoglobals

func (mm *muxModel) Enabled() []string {
	if mm.cfg.Depth > 0 && mm.depth >= mm.cfg.Depth {
		return nil
	}
	var evs []string
	for _, k := range muxKeys {
		if len(mm.handles[k]) < 2 {
			evs = append(evs, "get:"+k)
		}
		if len(mm.handles[k]) > 0 {
			evs = append(evs, "close:"+k)
			for _, a := range []string{"X", "Xm", "Y", "Z"} {
				if mm.cfg.Kind == "multi" && muxFamily(a) != k[len(k)-1:] {
					continue // one socket per local address: it cannot reach the other family (and replies come back to the socket that wrote)
				}
				evs = append(evs, "write:"+k+":"+a)
			}
		}
	}
	for _, u := range []string{"u1", "u2"} {
		evs = append(evs, "remove:"+u)
	}
	for _, kind := range []string{"u1:r", "u2:r", "u1", "zz:r", "nouser", "broken", "data"} {
		for _, a := range []string{"X", "Xm", "Y", "Z"} {
			evs = append(evs, "in:"+kind+":"+a)
		}
	}
	// the same, but the application reads it with a buffer that is too small (the datagram is lost to it, nothing else is)
	evs = append(evs, "inshort:u1:r:X", "inshort:data:X", "inshort:u2:r:Y")
	evs = append(evs, "closemux")

	return evs
}

func (mm *muxModel) localAddr(fam string) net.Addr {
	if fam == "6" {
		return &net.UDPAddr{IP: net.ParseIP("2001:db8::1"), Port: 7000}
	}

	return &net.UDPAddr{IP: net.ParseIP("10.0.0.1").To4(), Port: 7000}
}

func (mm *muxModel) dropOwner(g int) {
	for a, o := range mm.ref.owner {
		if o == g {
			delete(mm.ref.owner, a)
		}
	}
}

func (mm *muxModel) Apply(ev string) {
	mm.depth++
	f := strings.SplitN(ev, ":", 2)
	ref := mm.ref
	switch f[0] {
	case "get":
		k := f[1]
		u, fam, _ := strings.Cut(k, "/")
		c, err := mm.front.GetConn(u, mm.localAddr(fam))
		if ref.closed {
			if err == nil {
				mm.problem("", "GetConn succeeded on a closed mux")
				_ = c.Close()
			}

			break
		}
		if err != nil {
			mm.problem("", "GetConn(%s) failed: %v", k, err)

			break
		}
		if ref.reg[k] == 0 {
			ref.gen++
			ref.reg[k] = ref.gen
		}
		mm.handles[k] = append(mm.handles[k], muxHandle{c, ref.reg[k]})
	case "write":
		p := strings.Split(f[1], ":")
		k, a := p[0], p[1]
		h := mm.handles[k][0]
		var err error
		if ap, ok := h.conn.(AddrPortReaderWriter); ok && strings.HasSuffix(mm.cfg.Kind, "addrport") {
			_, err = ap.WriteToAddrPort([]byte("x"), muxSrc[a].AddrPort())
		} else {
			_, err = h.conn.WriteTo([]byte("x"), muxSrc[a])
		}
		live := ref.reg[k] == h.gen && !ref.closed
		if err == nil && live {
			ref.owner[muxCanon[a]] = h.gen
		}
		if err == nil {
			if mm.wroteTo[h.gen] == nil {
				mm.wroteTo[h.gen] = map[string]bool{}
			}
			mm.wroteTo[h.gen][muxCanon[a]] = true
			if mm.lastW == nil {
				mm.lastW = map[int]string{}
			}
			mm.lastW[h.gen] = a
		}
		// reference: a removed or closed connection owns nothing, whatever it writes
	case "in", "inshort":
		mm.short = f[0] == "inshort"
		p := strings.SplitN(f[1], ":", 3)
		// kind may itself contain ':' ("u1:r"): the source is the last field
		src := f[1][strings.LastIndex(f[1], ":")+1:]
		kind := f[1][:strings.LastIndex(f[1], ":")]
		_ = p
		mm.seq++
		payload := muxPayload(kind, mm.seq)
		from := muxSrc[src]
		if ref.closed {
			break
		}
		if mm.bot6 != nil && muxFamily(src) == "6" {
			mm.bot6.in <- botPkt{payload, from} // the datagram arrives at the socket of its own family
		} else {
			mm.bot.in <- botPkt{payload, from}
		}
		g := ref.owner[muxCanon[src]]
		if g == 0 && kind != "data" && kind != "nouser" && kind != "broken" {
			u := strings.Split(kind, ":")[0]
			g = ref.reg[u+"/"+muxFamily(src)]
		}
		if g != 0 {
			want := net.UDPAddr{IP: from.IP, Port: from.Port, Zone: from.Zone}
			ref.q[g] = append(ref.q[g], fmt.Sprintf("%x@%v", payload, &want))
		}
	case "remove":
		mm.front.RemoveConnByUfrag(f[1])
		for _, fam := range []string{"4", "6"} {
			k := f[1] + "/" + fam
			if g := ref.reg[k]; g != 0 {
				ref.reg[k] = 0
				mm.dropOwner(g)
				mm.removed[g] = true
			}
		}
	case "close":
		k := f[1]
		h := mm.handles[k][0]
		mm.handles[k] = mm.handles[k][1:]
		_ = h.conn.Close()
		if len(mm.closedH) < 4 {
			mm.closedH = append(mm.closedH, h)
		}
		stillOpen := false
		for _, o := range mm.handles[k] {
			stillOpen = stillOpen || o.gen == h.gen
		}
		if !stillOpen { // last handle of that connection: it is gone
			ref.q[h.gen] = nil
			if ref.reg[k] == h.gen {
				ref.reg[k] = 0
			}
			mm.dropOwner(h.gen)
		}
	case "closemux":
		_ = mm.front.Close()
		ref.closed = true
		ref.owner = map[string]int{}
		for k := range ref.reg {
			ref.reg[k] = 0
		}
	default:
		panic("unknown event " + ev)
	}
	synctest.Wait()
	mm.drain()
}

// drain polls every open handle (a read with an expired deadline returns what is queued).
func (mm *muxModel) drain() {
	defer func() { mm.short = false }()
	// handles closed earlier read first: they get an error and take nothing away from a sibling handle of their connection
	for _, h := range mm.closedH {
		if n, _, err := h.conn.ReadFrom(make([]byte, 2000)); err == nil {
			mm.problem("", "a handle closed earlier (generation %d) still received a datagram of %d bytes", h.gen, n)
		}
	}
	polled := map[int]bool{}
	for _, k := range muxKeys {
		for _, h := range mm.handles[k] {
			if polled[h.gen] {
				continue
			}
			polled[h.gen] = true
			if mm.short && len(mm.ref.q[h.gen]) > 0 {
				// one read with a 4-byte buffer: io.ErrShortBuffer, the datagram is gone, the queue behind it is intact
				_ = h.conn.SetReadDeadline(time.Now().Add(-time.Second))
				if _, _, err := h.conn.ReadFrom(make([]byte, 4)); !errors.Is(err, io.ErrShortBuffer) {
					mm.problem("", "connection %s: a read with a 4-byte buffer of a queued datagram returned %v, want io.ErrShortBuffer", k, err)
				} else {
					mm.ref.q[h.gen] = mm.ref.q[h.gen][1:]
				}
			}
			for {
				_ = h.conn.SetReadDeadline(time.Now().Add(-time.Second))
				buf := make([]byte, 2000)
				var n int
				var from net.Addr
				var err error
				if ap, ok := h.conn.(AddrPortReaderWriter); ok && strings.HasSuffix(mm.cfg.Kind, "addrport") {
					var fap netip.AddrPort
					n, fap, err = ap.ReadFromAddrPort(buf)
					from = net.UDPAddrFromAddrPort(fap)
				} else {
					n, from, err = h.conn.ReadFrom(buf)
				}
				if err != nil {
					break
				}
				tag := fmt.Sprintf("%x@%v", buf[:n], from)
				exp := mm.ref.q[h.gen]
				if len(exp) == 0 {
					// classifier S7: the unexpected recipient was removed by ufrag earlier and has written to the source since
					finding := ""
					if mm.removed[h.gen] {
						finding = "S7"
					}
					mm.problem(finding, "connection %s (generation %d, removed=%v) received a datagram the reference routes elsewhere or drops: %.40s", k, h.gen, mm.removed[h.gen], tag)

					continue
				}
				if exp[0] != tag {
					mm.problem("", "connection %s received a different datagram than expected (content, source address or order)", k)
				}
				mm.ref.q[h.gen] = exp[1:]
			}
			if n := len(mm.ref.q[h.gen]); n != 0 {
				finding := ""
				for g := range mm.removed {
					for a := range mm.wroteTo[g] {
						if mm.ref.owner[a] == 0 || mm.ref.owner[a] == h.gen {
							finding = "S7" // a removed connection took the address over by writing to it
						}
					}
				}
				mm.problem(finding, "connection %s (generation %d) did not receive %d datagram(s) the reference routes to it", k, h.gen, n)
				mm.ref.q[h.gen] = nil
			}
		}
	}
}

func (mm *muxModel) Key() (string, []int) {
	ref := mm.ref
	var ks []string
	for u, g := range ref.reg {
		if g != 0 {
			ks = append(ks, fmt.Sprintf("reg:%s=%d", u, g))
		}
	}
	for a, g := range ref.owner {
		ks = append(ks, fmt.Sprintf("own:%s=%d", a, g))
	}
	for k, hs := range mm.handles {
		for _, h := range hs {
			ks = append(ks, fmt.Sprintf("h:%s=%d", k, h.gen))
		}
	}
	for g := range mm.removed {
		ks = append(ks, fmt.Sprintf("rm:%d", g))
	}
	for _, h := range mm.closedH { // closed handles the application still holds (and reads from)
		ks = append(ks, fmt.Sprintf("closed-handle:%d", h.gen))
	}
	// what each live connection has written to, and where to last: two histories that leave the mux's tables equal may
	// still differ in what a connection remembers about its own writes (a per-connection shortcut would live there)
	for _, hs := range mm.handles {
		for _, h := range hs {
			var w []string
			for a := range mm.wroteTo[h.gen] {
				w = append(w, a)
			}
			sort.Strings(w)
			ks = append(ks, fmt.Sprintf("w:%d=%v/%s", h.gen, w, mm.lastW[h.gen]))
		}
	}
	sort.Strings(ks)
	// implementation-side part: registered ufrags and address bindings
	var ik []string
	for i, m := range mm.ms {
		m.mu.Lock()
		// with each registered connection the shape of its receive queue (after the drain: empty, head and tail nil)
		qshape := func(c *udpMuxedConn) string {
			c.mu.Lock()
			defer c.mu.Unlock()
			n := 0
			for p := c.bufTail; p != nil && n < 8; p = p.next {
				n++
			}

			return fmt.Sprintf("q%d/%v", n, c.bufHead != nil)
		}
		for u, c := range m.connsIPv4 {
			ik = append(ik, fmt.Sprintf("%d.c4:%s:%s", i, u, qshape(c)))
		}
		for u, c := range m.connsIPv6 {
			ik = append(ik, fmt.Sprintf("%d.c6:%s:%s", i, u, qshape(c)))
		}
		m.mu.Unlock()
		m.addressMapMu.Lock()
		for a, c := range m.addressMap {
			ik = append(ik, fmt.Sprintf("%d.a:%s=%s", i, a.String(), c.params.Key))
		}
		m.addressMapMu.Unlock()
	}
	sort.Strings(ik)

	return fmt.Sprintf("%v|%v##%s gen=%d", ks, ref.closed, strings.Join(ik, ","), ref.gen), []int{mm.depth}
}

func (mm *muxModel) Problems() []vtProblem {
	// after removal / close the address bindings are gone
	for _, m := range mm.ms {
		m.addressMapMu.Lock()
		for a, c := range m.addressMap {
			live := false
			m.mu.Lock()
			for _, rc := range m.connsIPv4 {
				live = live || rc == c
			}
			for _, rc := range m.connsIPv6 {
				live = live || rc == c
			}
			m.mu.Unlock()
			if !live {
				mm.problems = append(mm.problems, vtProblem{"S7", fmt.Sprintf("address binding %s still points at connection %q which is no longer registered", a, c.params.Key)})
			}
		}
		m.addressMapMu.Unlock()
	}
	p := mm.problems
	mm.problems = nil

	return p
}

func (mm *muxModel) Finish() []vtProblem { return nil }

func (mm *muxModel) Close() {
	for _, hs := range mm.handles {
		for _, h := range hs {
			_ = h.conn.Close()
		}
	}
	_ = mm.front.Close()
	synctest.Wait()
}

func checkC12(c *runCtx) {
	c.assume("sequential part: one operation at a time, run to quiescence (the asynchronous removal after a handle close completes before the next operation); the concurrent interleavings are the CS scenarios",
		"reference: owner[canonical source] = last live writer; fallback registered[ufrag before ':'][family of the canonical source]; removed or closed connections own nothing")
	p := newVTPool()
	defer p.close()
	dl := c01deadline(c, 240, 1200)
	depth := 6
	if !c.quick() {
		depth = 7
	}
	vtSearch(c, p, vtSpec{Name: fmt.Sprintf("UDPMuxDefault, all sequences of length <= %d", depth), Model: "udpmux", Cfg: muxCfg{Depth: depth}, Deadline: dl})
	vtSearch(c, p, vtSpec{Name: fmt.Sprintf("UDPMuxDefault over a socket with netip.AddrPort I/O, handles used through their AddrPort methods, length <= %d", depth-1), Model: "udpmux", Cfg: muxCfg{Depth: depth - 1, Kind: "addrport"}, Deadline: dl})
	vtSearch(c, p, vtSpec{Name: fmt.Sprintf("UniversalUDPMuxDefault, length <= %d", depth-1), Model: "udpmux", Cfg: muxCfg{Depth: depth - 1, Kind: "universal"}, Deadline: dl})
	vtSearch(c, p, vtSpec{Name: fmt.Sprintf("UniversalUDPMuxDefault over an AddrPort socket, length <= %d", depth-2), Model: "udpmux", Cfg: muxCfg{Depth: depth - 2, Kind: "universal-addrport"}, Deadline: dl})
	vtSearch(c, p, vtSpec{Name: fmt.Sprintf("MultiUDPMuxDefault over one mux per local address, length <= %d", depth-1), Model: "udpmux", Cfg: muxCfg{Depth: depth - 1, Kind: "multi"}, Deadline: dl})
	if os.Getenv("VERIF_VARIANT") == "instr" {
		b := 3
		if !c.quick() {
			b = 4
		}
		csExplore(c, "mux-dispatch-takeover-remove", b, dl, nil)
		csExplore(c, "mux-close-vs-getconn", b+1, dl, nil)
	} else {
		c.capHit("built without instrumentation: the concurrent scenarios were not run")
	}
}
