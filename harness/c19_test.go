package ice

// C19 — address rewrite rules map addresses as documented.
// Engine BE: exhaustive enumeration of rule lists × lookup keys against a reference
// transcription of the documented precedence.

import (
	"encoding/json"
	"fmt"
	"net"
	"sort"
	"strings"
	"sync"
	"sync/atomic"
	"time"
)

func init() { registerCheck("C19", checkC19) }

type c19res struct {
	ok      bool // constructor accepted the rule list
	matched bool
	mode    AddressRewriteMode
	ips     string
}

func c19is4(ip net.IP) bool { return ip.To4() != nil }

// deviations of the implementation from the statement that are known findings; the reference can be
// asked to reproduce each one so that a disagreement can be attributed to a root cause.
type c19dev struct{ s10, s16, s17 bool }

// c19valid is the reference for "invalid rule sets are rejected at construction".
func c19valid(rules []AddressRewriteRule) bool {
	for _, r := range rules {
		if r.AsCandidateType == CandidateTypePeerReflexive {
			return false
		}
		if r.Mode != addressRewriteModeUnspecified && r.Mode != AddressRewriteReplace && r.Mode != AddressRewriteAppend {
			return false
		}
		for _, e := range r.External {
			e = strings.TrimSpace(e)
			if e == "" {
				continue
			}
			if strings.Contains(e, "/") || net.ParseIP(e) == nil {
				return false
			}
		}
		var loc net.IP
		if l := strings.TrimSpace(r.Local); l != "" {
			if loc = net.ParseIP(l); loc == nil {
				return false
			}
		}
		if r.CIDR != "" {
			_, n, err := net.ParseCIDR(r.CIDR)
			if err != nil {
				return false
			}
			if loc != nil && !n.Contains(loc) {
				return false
			}
		}
	}

	return true
}

// c19ref is the documented lookup rule.
func c19ref(rules []AddressRewriteRule, typ CandidateType, local, iface string, dev c19dev) c19res {
	if !c19valid(rules) {
		return c19res{}
	}
	loc := net.ParseIP(local)
	bestSpec := -1
	var best c19res
	for _, r := range rules {
		rt := r.AsCandidateType
		if rt == CandidateTypeUnspecified {
			rt = CandidateTypeHost
		}
		if rt != typ {
			continue
		}
		mode := r.Mode
		if mode == addressRewriteModeUnspecified {
			mode = AddressRewriteAppend
			if rt == CandidateTypeHost {
				mode = AddressRewriteReplace
			}
		}
		allow4, allow6 := true, true
		if len(r.Networks) > 0 {
			allow4, allow6 = false, false
			for _, n := range r.Networks {
				allow4 = allow4 || n.IsIPv4()
				allow6 = allow6 || n.IsIPv6()
			}
		}
		if (c19is4(loc) && !allow4) || (!c19is4(loc) && !allow6) {
			continue
		}
		if r.Iface != "" && r.Iface != iface {
			continue
		}
		var cidr *net.IPNet
		if r.CIDR != "" {
			_, cidr, _ = net.ParseCIDR(r.CIDR)
			if !cidr.Contains(loc) {
				continue
			}
		}
		var exts []string
		seen := map[string]bool{}
		for _, e := range r.External {
			e = strings.TrimSpace(e)
			if e != "" && !seen[e] {
				seen[e] = true
				exts = append(exts, net.ParseIP(e).String())
			}
		}
		if l := strings.TrimSpace(r.Local); l != "" {
			if !net.ParseIP(l).Equal(loc) {
				continue
			}
			// first explicit match wins; pinned by Local, so families may cross
			return c19res{true, true, mode, strings.Join(exts, ",")}
		}
		// catch-all: only externals of the local address's own family
		var ips []string
		for _, e := range exts {
			ef4 := c19is4(net.ParseIP(e))
			if dev.s17 && cidr != nil {
				ef4 = c19is4(cidr.IP) // implementation: family implied by the CIDR
			}
			if ef4 == c19is4(loc) {
				ips = append(ips, e)
			}
		}
		if len(exts) > 0 && len(ips) == 0 {
			if !dev.s16 {
				continue // nothing to advertise for this family: the rule does not apply
			}
			// implementation: if *no* external survived the Networks restriction at all, the rule becomes
			// an empty catch-all for every allowed family
			anySurvived := false
			for _, e := range exts {
				ef4 := c19is4(net.ParseIP(e))
				if dev.s17 && cidr != nil {
					ef4 = c19is4(cidr.IP)
				}
				if (ef4 && allow4) || (!ef4 && allow6) {
					anySurvived = true
				}
			}
			if anySurvived {
				continue
			}
		}
		spec := 0
		if r.Iface != "" {
			spec += 2
		}
		if cidr != nil && !(dev.s10 && r.Iface == "" && iface != "") {
			spec++
		}
		if spec > bestSpec {
			bestSpec = spec
			best = c19res{true, true, mode, strings.Join(ips, ",")}
		}
	}
	if bestSpec < 0 {
		return c19res{ok: true}
	}

	return best
}

// c19hasEmpty reports whether some rule lists no external address (the documented "empty" rules).
func c19hasEmpty(rules []AddressRewriteRule) bool {
	for _, r := range rules {
		n := 0
		for _, e := range r.External {
			if strings.TrimSpace(e) != "" {
				n++
			}
		}
		if n == 0 {
			return true
		}
	}

	return false
}

// c19impl runs the implementation. Lists without empty-External rules go through the public path
// (sanitizeAddressRewriteRule, as WithAddressRewriteRules does, then newAddressRewriteMapper). The public
// option refuses rules without externals, so the documented semantics of empty rules are only reachable by
// compiling directly; for such lists the harness trims/dedups externals itself and calls the compiler.
func c19impl(rules []AddressRewriteRule, typ CandidateType, local, iface string) (res c19res, panicked string) {
	panicked = safely(func() {
		san := make([]AddressRewriteRule, 0, len(rules))
		direct := c19hasEmpty(rules)
		for _, r := range rules {
			if direct {
				n := r
				n.External = nil
				seen := map[string]bool{}
				for _, e := range r.External {
					if e = strings.TrimSpace(e); e != "" && !seen[e] {
						seen[e] = true
						n.External = append(n.External, e)
					}
				}
				if n.Mode != addressRewriteModeUnspecified && n.Mode != AddressRewriteReplace && n.Mode != AddressRewriteAppend {
					return // the compiler relies on the option to refuse unknown modes
				}
				san = append(san, n)

				continue
			}
			san = append(san, r)
		}
		if !direct {
			// the public path: the option itself (sanitiser, accumulation, conflict scan) on an agent under construction
			ag := &Agent{log: nopLogger{}}
			if err := WithAddressRewriteRules(san...)(ag); err != nil {
				return
			}
			san = ag.addressRewriteRules
		}
		m, err := newAddressRewriteMapper(san)
		if err != nil {
			return
		}
		if m == nil {
			res = c19res{ok: true}

			return
		}
		ips, matched, mode, err := m.findExternalIPs(typ, local, iface)
		if err != nil {
			return
		}
		var ss []string
		for _, ip := range ips {
			ss = append(ss, ip.String())
		}
		res = c19res{true, matched, mode, strings.Join(ss, ",")}
	})

	return res, panicked
}

type c19key struct {
	typ   CandidateType
	ip    string
	iface string
}

func c19ruleString(r AddressRewriteRule) string {
	return fmt.Sprintf("{ext=%v local=%q iface=%q cidr=%q type=%s mode=%d nets=%v}", r.External, r.Local, r.Iface, r.CIDR, r.AsCandidateType, r.Mode, r.Networks)
}

func checkC19(c *runCtx) {
	c.setLevel("exploration")
	c.assume("rule lists go through the public option WithAddressRewriteRules applied to an agent under construction (sanitiser, accumulation, conflict scan), then newAddressRewriteMapper as the constructor does",
		"'never cross families unless pinned by Local' is read strictly (a CIDR does not pin a family); the code's rule doc comment reads it differently — see known finding S17")

	e4, e4b, e6 := "203.0.113.1", "203.0.113.2", "2001:db8:e::1"
	keys := []c19key{}
	for _, ty := range []CandidateType{CandidateTypeHost, CandidateTypeServerReflexive, CandidateTypeRelay} {
		for _, ip := range []string{"10.0.0.5", "10.0.0.6", "172.16.0.1", "2001:db8::5", "2001:db9::1"} {
			for _, ifc := range []string{"", "eth0", "eth1"} {
				keys = append(keys, c19key{ty, ip, ifc})
			}
		}
	}
	var evals, lists, nontrivial int64
	type cls struct {
		n       int
		example string
		finding string
		replay  map[string]any
	}
	var mu sync.Mutex
	classes := map[string]*cls{}
	devSubsets := []c19dev{{true, false, false}, {false, true, false}, {false, false, true}, {true, true, false}, {true, false, true}, {false, true, true}, {true, true, true}}
	devName := func(d c19dev) []string {
		var s []string
		if d.s10 {
			s = append(s, "S10")
		}
		if d.s16 {
			s = append(s, "S16")
		}
		if d.s17 {
			s = append(s, "S17")
		}

		return s
	}
	check := func(rules []AddressRewriteRule, ks []c19key) {
		atomic.AddInt64(&lists, 1)
		rejected := false
		for _, k := range ks {
			got, pm := c19impl(rules, k.typ, k.ip, k.iface)
			want := c19ref(rules, k.typ, k.ip, k.iface, c19dev{})
			atomic.AddInt64(&evals, 1)
			if want.matched {
				atomic.AddInt64(&nontrivial, 1)
			}
			if pm == "" && got == want {
				if !got.ok {
					rejected = true
				}

				continue
			}
			class, finding := "", ""
			switch {
			case pm != "":
				class = "implementation panics"
			case got.ok != want.ok:
				class = fmt.Sprintf("constructor verdict: impl accepts=%v reference accepts=%v", got.ok, want.ok)
			default:
				var attributed []string
				for _, d := range devSubsets {
					if c19ref(rules, k.typ, k.ip, k.iface, d) == got {
						attributed = devName(d)

						break
					}
				}
				switch {
				case got.matched != want.matched:
					class = fmt.Sprintf("matched: impl=%v reference=%v", got.matched, want.matched)
				case got.ips != want.ips:
					class = "different external addresses"
				default:
					class = "different mode"
				}
				if attributed != nil {
					class += " [" + strings.Join(attributed, "+") + "]"
					finding = strings.Join(attributed, "+")
				}
			}
			var rs []string
			for _, r := range rules {
				rs = append(rs, c19ruleString(r))
			}
			mu.Lock()
			cl := classes[class]
			if cl == nil {
				cl = &cls{finding: finding, example: fmt.Sprintf("lookup(type=%s ip=%s iface=%q) rules=%s :: impl{ok=%v matched=%v mode=%d ips=[%s]} reference{ok=%v matched=%v mode=%d ips=[%s]}",
					k.typ, k.ip, k.iface, strings.Join(rs, " "), got.ok, got.matched, got.mode, got.ips, want.ok, want.matched, want.mode, want.ips),
					replay: map[string]any{"rules": rs, "type": k.typ.String(), "ip": k.ip, "iface": k.iface}}
				classes[class] = cl
			}
			cl.n++
			mu.Unlock()
			if !got.ok || !want.ok {
				break // one verdict per list
			}
		}
		_ = rejected
	}

	// ---- pools
	type pools struct {
		exts   [][]string
		locals []string
		ifaces []string
		cidrs  []string
		modes  []AddressRewriteMode
		types  []CandidateType
		nets   [][]NetworkType
	}
	full := pools{
		exts:   [][]string{{e4}, {e4, e4b}, {e6}, {e4, e6}, {}},
		locals: []string{"", "10.0.0.5", "2001:db8::5"},
		ifaces: []string{"", "eth0"},
		cidrs:  []string{"", "10.0.0.0/8", "2001:db8::/32"},
		modes:  []AddressRewriteMode{addressRewriteModeUnspecified, AddressRewriteReplace, AddressRewriteAppend},
		types:  []CandidateType{CandidateTypeUnspecified, CandidateTypeHost, CandidateTypeServerReflexive, CandidateTypeRelay},
		nets:   [][]NetworkType{nil, {NetworkTypeUDP4}, {NetworkTypeUDP6}},
	}
	half := pools{
		exts:   [][]string{{e4}, {e6}, {e4, e6}, {}},
		locals: []string{"", "10.0.0.5", "2001:db8::5"},
		ifaces: []string{"", "eth0"},
		cidrs:  []string{"", "10.0.0.0/8", "2001:db8::/32"},
		modes:  []AddressRewriteMode{AddressRewriteReplace, AddressRewriteAppend},
		types:  []CandidateType{CandidateTypeHost},
		nets:   [][]NetworkType{nil, {NetworkTypeUDP6}},
	}
	mk := func(p pools) []AddressRewriteRule {
		var out []AddressRewriteRule
		for _, e := range p.exts {
			for _, l := range p.locals {
				for _, i := range p.ifaces {
					for _, ci := range p.cidrs {
						for _, md := range p.modes {
							for _, ty := range p.types {
								for _, n := range p.nets {
									out = append(out, AddressRewriteRule{External: e, Local: l, Iface: i, CIDR: ci, Mode: md, AsCandidateType: ty, Networks: n})
								}
							}
						}
					}
				}
			}
		}

		return out
	}
	invalid := []AddressRewriteRule{
		{External: []string{"not-an-ip"}},
		{External: []string{e4 + "/10.0.0.5"}},
		{External: []string{e4}, Local: "bad"},
		{External: []string{e4}, CIDR: "10.0.0.0/33"},
		{External: []string{e4}, Local: "10.0.0.5", CIDR: "192.168.0.0/16"},
		{External: []string{e4}, AsCandidateType: CandidateTypePeerReflexive},
		{External: []string{e4}, Mode: AddressRewriteMode(7)},
		{External: []string{" " + e4 + " ", e4}, Local: " 10.0.0.5 "},
	}
	fullPool := append(mk(full), invalid...)
	halfPool := append(mk(half), invalid...)
	hostKeys := keys[:15]

	// ---- lists of length 0, 1 (full pool, all keys), 2
	check(nil, keys)
	parallelFor(len(fullPool), func(i int) { check([]AddressRewriteRule{fullPool[i]}, keys) })
	pairPool := halfPool
	pairKeys := hostKeys
	if !c.quick() {
		// thorough: full pool restricted to the host-type rules (type only partitions the rule list) plus srflx rules
		pairPool = nil
		for _, r := range fullPool {
			if r.AsCandidateType == CandidateTypeHost || r.AsCandidateType == CandidateTypeServerReflexive || r.AsCandidateType == CandidateTypePeerReflexive {
				pairPool = append(pairPool, r)
			}
		}
		pairKeys = keys[:30]
	}
	parallelFor(len(pairPool), func(i int) {
		for j := range pairPool {
			check([]AddressRewriteRule{pairPool[i], pairPool[j]}, pairKeys)
		}
	})
	c.sample(map[string]any{"part": "lists of length <= 2", "single_rule_pool": len(fullPool), "pair_pool": len(pairPool), "lookup_keys": len(keys), "example_rule": c19ruleString(fullPool[len(fullPool)/3])})

	// ---- length 3 over a reduced pool
	red := mk(pools{
		exts: [][]string{{e4}, {e6}, {}}, locals: []string{"", "10.0.0.5"}, ifaces: []string{"", "eth0"}, cidrs: []string{"", "10.0.0.0/8"},
		modes: []AddressRewriteMode{AddressRewriteReplace, AddressRewriteAppend}, types: []CandidateType{CandidateTypeHost}, nets: [][]NetworkType{nil},
	})
	parallelFor(len(red)*len(red), func(ij int) {
		i, j := ij/len(red), ij%len(red)
		for k := range red {
			check([]AddressRewriteRule{red[i], red[j], red[k]}, hostKeys)
		}
	})
	c.sample(map[string]any{"part": "lists of length 3", "pool": len(red), "lists": len(red) * len(red) * len(red)})

	// ---- lengths 4..6: every ordering of every <=6-subset of a specificity ladder
	ladder := []AddressRewriteRule{
		{External: []string{"198.51.100.1"}, Local: "10.0.0.5", AsCandidateType: CandidateTypeHost},
		{External: []string{"198.51.100.2"}, Iface: "eth0", CIDR: "10.0.0.0/8", AsCandidateType: CandidateTypeHost},
		{External: []string{"198.51.100.3"}, Iface: "eth0", AsCandidateType: CandidateTypeHost},
		{External: []string{"198.51.100.4"}, CIDR: "10.0.0.0/8", AsCandidateType: CandidateTypeHost},
		{External: []string{"198.51.100.5"}, AsCandidateType: CandidateTypeHost},
		{External: []string{"198.51.100.6"}, Iface: "eth0", AsCandidateType: CandidateTypeHost, Mode: AddressRewriteAppend},
		{External: []string{"198.51.100.7"}, AsCandidateType: CandidateTypeHost, Mode: AddressRewriteAppend},
	}
	var ladderLists [][]AddressRewriteRule
	minLen, maxLen := 4, 6
	if c.quick() {
		maxLen = 5
	}
	var perm func(cur []int, used int)
	perm = func(cur []int, used int) {
		if len(cur) >= minLen {
			l := make([]AddressRewriteRule, len(cur))
			for i, x := range cur {
				l[i] = ladder[x]
			}
			ladderLists = append(ladderLists, l)
		}
		if len(cur) == maxLen {
			return
		}
		for i := range ladder {
			if used&(1<<i) == 0 {
				perm(append(cur, i), used|1<<i)
			}
		}
	}
	perm(nil, 0)
	parallelFor(len(ladderLists), func(i int) { check(ladderLists[i], hostKeys) })
	c.sample(map[string]any{"part": "specificity ladder", "rules": 7, "orderings_of_subsets_len_4_to": maxLen, "lists": len(ladderLists)})

	// ---- legacy NAT1To1IPs
	l4, l4b, l6 := "10.0.0.5", "10.0.0.6", "2001:db8::5"
	entries := []string{e4, e4b, e6, e4 + "/" + l4, e4 + "/" + l4b, e6 + "/" + l6, e4 + "/" + l6, "", " " + e4 + " ", "bad", e4 + "/" + l4 + "/x", e4 + "/bad"}
	var legacyLists [][]string
	var recL func(cur []string)
	recL = func(cur []string) {
		legacyLists = append(legacyLists, append([]string{}, cur...))
		if len(cur) == 3 {
			return
		}
		for _, e := range entries {
			recL(append(cur, e))
		}
	}
	recL(nil)
	legacyRef := func(ips []string, typ CandidateType) ([]AddressRewriteRule, bool) {
		var rules []AddressRewriteRule
		has4, has6 := false, false
		for _, raw := range ips {
			t := strings.TrimSpace(raw)
			if t == "" {
				continue
			}
			parts := strings.Split(t, "/")
			if len(parts) > 2 {
				return nil, false
			}
			ext := net.ParseIP(strings.TrimSpace(parts[0]))
			if ext == nil {
				return nil, false
			}
			if len(parts) == 2 {
				if net.ParseIP(strings.TrimSpace(parts[1])) == nil {
					return nil, false
				}
				rules = append(rules, AddressRewriteRule{External: []string{strings.TrimSpace(parts[0])}, Local: strings.TrimSpace(parts[1]), AsCandidateType: typ})

				continue
			}
			if c19is4(ext) {
				if has4 {
					return nil, false
				}
				has4 = true
			} else {
				if has6 {
					return nil, false
				}
				has6 = true
			}
			rules = append(rules, AddressRewriteRule{External: []string{t}, AsCandidateType: typ})
		}

		return rules, true
	}
	parallelFor(len(legacyLists), func(i int) {
		ips := legacyLists[i]
		for _, cfgTyp := range []CandidateType{CandidateTypeUnspecified, CandidateTypeHost, CandidateTypeServerReflexive} {
			typ := cfgTyp
			if typ == CandidateTypeUnspecified {
				typ = CandidateTypeHost
			}
			atomic.AddInt64(&lists, 1)
			var implRules []AddressRewriteRule
			implOK := false
			pm := safely(func() {
				if validateLegacyNAT1To1IPs(ips) != nil {
					return
				}
				rs, err := legacyNAT1To1Rules(ips, typ)
				if err != nil {
					return
				}
				implRules, implOK = rs, true
			})
			refRules, refOK := legacyRef(ips, typ)
			atomic.AddInt64(&evals, 1)
			note := func(class, ex string) {
				mu.Lock()
				if classes[class] == nil {
					classes[class] = &cls{example: ex, replay: map[string]any{"legacy": ips, "type": cfgTyp.String()}}
				}
				classes[class].n++
				mu.Unlock()
			}
			if pm != "" {
				note("legacy NAT1To1IPs: panic", fmt.Sprintf("%q: %s", ips, pm))

				continue
			}
			if implOK != refOK {
				note(fmt.Sprintf("legacy NAT1To1IPs verdict: impl accepts=%v reference accepts=%v", implOK, refOK), fmt.Sprintf("%q", ips))

				continue
			}
			if !implOK {
				continue
			}
			for _, k := range keys {
				got, _ := c19impl(implRules, k.typ, k.ip, k.iface)
				want := c19ref(refRules, k.typ, k.ip, k.iface, c19dev{})
				atomic.AddInt64(&evals, 1)
				if want.matched {
					atomic.AddInt64(&nontrivial, 1)
				}
				if got != want {
					note("legacy NAT1To1IPs: lookup differs from the reference", fmt.Sprintf("%q type=%s lookup(%s,%s,%q): impl{matched=%v mode=%d ips=[%s]} reference{matched=%v mode=%d ips=[%s]}", ips, cfgTyp, k.typ, k.ip, k.iface, got.matched, got.mode, got.ips, want.matched, want.mode, want.ips))
				}
			}
		}
	})
	c.sample(map[string]any{"part": "legacy NAT1To1IPs", "entries": entries, "lists_up_to_len_3": len(legacyLists), "candidate_types": 3})

	var names []string
	for n := range classes {
		names = append(names, n)
	}
	sort.Strings(names)
	for _, n := range names {
		cl := classes[n]
		finding := cl.finding
		if strings.Contains(finding, "+") {
			// several known deviations at once: attribute to the first only when every one of them is a listed open finding
			parts := strings.Split(finding, "+")
			all := true
			for _, p := range parts {
				open := false
				for _, k := range c.known {
					open = open || (k.Property == "C19" && k.ID == p && k.Status == "open")
				}
				all = all && open
			}
			finding = ""
			if all {
				finding = parts[0]
			}
		}
		c.violation(finding, fmt.Sprintf("%s — %d lookups, first: %s", n, cl.n, cl.example), cl.replay)
	}
	// ---- application while gathering: replace substitutes the local address (an empty list drops the candidate),
	// append adds to it (an empty list changes nothing). Every list of <= 2 rules over a pool, with and without a UDP
	// mux, runs one real gathering cycle; the published host / mapped server-reflexive candidates are compared with what
	// the statement derives from the lookup result (the lookup itself is judged above, so the mapper's own answer is used).
	gatherRuns, gatherProblems := c19gather(c)
	evals += int64(gatherRuns)
	nontrivial += int64(gatherRuns)
	for _, gp := range gatherProblems {
		c.violation(gp.finding, "application while gathering: "+gp.msg, gp.replay)
	}
	c.set("gathering_runs", gatherRuns)
	c.set("rule_lists", int(lists))
	c.set("evaluations", int(evals))
	c.set("distinct_nontrivial", int(nontrivial))
	c.set("rule", "one evaluation = one (rule list, lookup key) compared between the implementation (sanitize + compile + findExternalIPs) and the reference; lists are enumerated without repetition per part (all lists of length 0-2 over the pools, length 3 over the reduced pool, every ordering of every 4..N subset of the specificity ladder, every legacy list of <=3 entries); non-trivial = the reference says some rule matches the key")
}

type c19gp struct {
	finding string
	msg     string
	replay  any
}

func c19gather(c *runCtx) (int, []c19gp) {
	host, srflx, relay := CandidateTypeHost, CandidateTypeServerReflexive, CandidateTypeRelay
	pool := []AddressRewriteRule{
		{External: []string{"203.0.113.5"}, AsCandidateType: host},
		{External: []string{"203.0.113.5"}, AsCandidateType: host, Mode: AddressRewriteAppend},
		{External: []string{"203.0.113.5", "203.0.113.6"}, AsCandidateType: host, Mode: AddressRewriteReplace},
		{External: nil, AsCandidateType: host, Mode: AddressRewriteReplace},
		{External: nil, AsCandidateType: host, Mode: AddressRewriteAppend},
		{External: []string{"203.0.113.7"}, Iface: "eth0", AsCandidateType: host, Mode: AddressRewriteReplace},
		{External: []string{"203.0.113.8"}, Local: "192.168.1.2", AsCandidateType: host, Mode: AddressRewriteReplace},
		{External: []string{"203.0.113.9"}, Local: "10.0.0.1", AsCandidateType: host, Mode: AddressRewriteAppend},
		{External: []string{"203.0.113.20"}, AsCandidateType: srflx},
		{External: []string{"203.0.113.21", "203.0.113.22"}, Iface: "eth1", AsCandidateType: srflx, Mode: AddressRewriteAppend},
		{External: []string{"203.0.113.30", "203.0.113.31"}, AsCandidateType: relay},
		{External: []string{"203.0.113.32"}, AsCandidateType: relay, Mode: AddressRewriteReplace},
		{External: nil, AsCandidateType: relay, Mode: AddressRewriteReplace},
		{External: []string{"203.0.113.33"}, Iface: "eth0", AsCandidateType: relay, Mode: AddressRewriteReplace},
	}
	var lists [][]AddressRewriteRule
	lists = append(lists, nil)
	for i := range pool {
		lists = append(lists, []AddressRewriteRule{pool[i]})
		for j := range pool {
			if i != j {
				lists = append(lists, []AddressRewriteRule{pool[i], pool[j]})
			}
		}
	}
	two := []gIface{{Name: "eth0", Up: true, Addrs: []string{"10.0.0.1"}}, {Name: "eth1", Up: true, Addrs: []string{"192.168.1.2"}}}
	type job struct {
		rules []AddressRewriteRule
		mux   string
	}
	var jobs []job
	for _, l := range lists {
		jobs = append(jobs, job{l, ""}, job{l, "10.0.0.1:7000"})
	}
	var mu sync.Mutex
	var problems []c19gp
	seen := map[string]bool{}
	for idx := range jobs { // one bubble at a time: the worlds share package-level hooks
		jb := jobs[idx]
		var msgs []string
		inBubble(c.t, func() {
			cfg := gatherCfg{Ifaces: two, NetTypes: []string{"udp4"}, CandTypes: []string{"host", "srflx", "relay"}, URLs: []string{"turn:198.51.100.1:3478?transport=udp"}, UDPMux: jb.mux}
			raw, _ := json.Marshal(cfg)
			gw := newGatherWorld(raw)
			defer func() { // resources are C09's subject (its relay rewrite configurations): a TURN client left open is wound up here
				for _, t := range gw.turns {
					select {
					case <-t.done:
					default:
						t.Close()
					}
				}
			}()
			defer gw.Close()
			// rules without externals are refused by the public option: compile and install directly (as part 1 does)
			m, err := newAddressRewriteMapper(jb.rules)
			if err != nil {
				return // an invalid list: nothing to apply
			}
			gw.a.addressRewriteMapper = m
			if err := gw.a.GatherCandidates(); err != nil {
				msgs = append(msgs, "GatherCandidates: "+err.Error())

				return
			}
			quiesce()
			for _, t := range gw.turns { // every allocation succeeds
				t.reply <- "ok"
			}
			quiesce()
			for i := 0; i < 10; i++ {
				if st, _ := gw.a.GetGatheringState(); st == GatheringStateComplete {
					break
				}
				time.Sleep(6 * time.Second)
				quiesce()
			}
			// expected
			wantHost, wantSrflx := map[string]int{}, map[string]int{}
			type la struct{ ip, iface string }
			locals := []la{{"10.0.0.1", "eth0"}, {"192.168.1.2", "eth1"}}
			if jb.mux != "" {
				locals = []la{{"10.0.0.1", ""}} // the mux socket; the lookup carries no interface
			}
			lookup := func(t CandidateType, ip, iface string) (ips []string, matched bool, mode AddressRewriteMode) {
				if m == nil {
					return nil, false, 0
				}
				got, matched, mode, err := m.findExternalIPs(t, ip, iface)
				if err != nil {
					return nil, false, 0
				}
				for _, g := range got {
					ips = append(ips, g.String())
				}

				return ips, matched, mode
			}
			for _, l := range locals {
				ips, matched, mode := lookup(host, l.ip, l.iface)
				switch {
				case !matched:
					wantHost[l.ip]++
				case mode == AddressRewriteReplace:
					for _, e := range ips {
						wantHost[e]++
					}
				default:
					wantHost[l.ip]++
					for _, e := range ips {
						wantHost[e]++
					}
				}
			}
			if m != nil && m.hasCandidateType(srflx) {
				// mapped server-reflexive candidates are gathered on one wildcard socket: the lookup key is the unspecified
				// address without an interface, so only unscoped rules can match; nothing matching = nothing to advertise
				ips, matched, _ := lookup(srflx, "0.0.0.0", "")
				if matched {
					for _, e := range ips {
						wantSrflx[e+" base 0.0.0.0"] = 1
					}
				}
			}
			// the relayed address is looked up under the local address of the socket that talks to the TURN server (a
			// wildcard socket here, so no interface); the candidate keeps the relayed port
			wantRelay := map[string]int{}
			const relayed = "198.51.100.7"
			{
				ips, matched, mode := lookup(relay, "0.0.0.0", "")
				switch {
				case m == nil || !m.hasCandidateType(relay) || !matched:
					wantRelay[relayed] = 1
				case mode == AddressRewriteReplace:
					for _, e := range ips {
						wantRelay[e] = 1
					}
				default:
					wantRelay[relayed] = 1
					for _, e := range ips {
						wantRelay[e] = 1
					}
				}
			}
			gotRelay := map[string]int{}
			gotHost, gotSrflx := map[string]int{}, map[string]int{}
			for _, line := range gw.candLog {
				if line == "nil" {
					continue
				}
				cd, err := UnmarshalCandidate(line)
				if err != nil {
					msgs = append(msgs, "published candidate does not parse: "+line)

					continue
				}
				switch cd.Type() {
				case CandidateTypeHost:
					gotHost[cd.Address()]++
				case CandidateTypeServerReflexive:
					base := ""
					if ra := cd.RelatedAddress(); ra != nil {
						base = ra.Address
					}
					gotSrflx[cd.Address()+" base "+base]++
				case CandidateTypeRelay:
					gotRelay[cd.Address()] = 1
				default:
				}
			}
			// two sockets of the fake network get the same port, so one external address mapped from both is one
			// candidate: compare which addresses are published, not how often
			for k := range gotHost {
				gotHost[k] = 1
			}
			for k := range wantHost {
				wantHost[k] = 1
			}
			if fmt.Sprint(gotHost) != fmt.Sprint(wantHost) {
				msgs = append(msgs, fmt.Sprintf("host candidates published %v, the rules give %v", gotHost, wantHost))
			}
			if gotSrflx["0.0.0.0 base 0.0.0.0"] > 0 && wantSrflx["0.0.0.0 base 0.0.0.0"] == 0 {
				msgs = append(msgs, "S29:a server-reflexive candidate with the unspecified address 0.0.0.0 is published: no server-reflexive rule matches the wildcard socket of the mapped gatherer (or an append rule matched without externals), and its own address is advertised instead of nothing")
				delete(gotSrflx, "0.0.0.0 base 0.0.0.0")
			}
			if fmt.Sprint(gotRelay) != fmt.Sprint(wantRelay) {
				msgs = append(msgs, fmt.Sprintf("relay candidates published %v, the rules give %v", gotRelay, wantRelay))
			}
			if fmt.Sprint(gotSrflx) != fmt.Sprint(wantSrflx) {
				msgs = append(msgs, fmt.Sprintf("mapped server-reflexive candidates published %v, the rules give %v", gotSrflx, wantSrflx))
			}
		})
		if len(msgs) == 0 {
			continue
		}
		var rs []string
		for _, r := range jb.rules {
			rs = append(rs, c19ruleString(r))
		}
		mu.Lock()
		for _, msg := range msgs {
			finding := ""
			if strings.HasPrefix(msg, "S29:") {
				finding, msg = "S29", msg[4:]
			}
			if !seen[msg] && len(problems) < 20 {
				seen[msg] = true
				problems = append(problems, c19gp{finding, fmt.Sprintf("%s; e.g. rules=%s mux=%q", msg, strings.Join(rs, " "), jb.mux), map[string]any{"part": "gathering", "rules": jb.rules, "udp_mux": jb.mux}})
			}
		}
		mu.Unlock()
	}

	return len(jobs), problems
}
