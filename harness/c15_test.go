package ice

// C15 — the TCP mux routes connections by ufrag and cleans up after itself. Engine VT: a real
// TCPMuxDefault over a fake listener and in-bubble streams (deadlines on the virtual clock), BFS over
// operation sequences against a reference routing model.

import (
	"encoding/binary"
	"encoding/json"
	"fmt"
	"io"
	"net"
	"os"
	"sort"
	"strconv"
	"strings"
	"sync"
	"testing/synctest"
	"time"

	"github.com/pion/stun/v3"
)

func init() {
	registerCheck("C15", checkC15)

	vtModels["tcpmux"] = func(cfg json.RawMessage) vtModel { return newTCPModel(cfg) }
}

// ---------------------------------------------------------------- in-bubble stream and listener

type pipeEnd struct {
	mu      sync.Mutex
	buf     []byte
	eof     bool // peer closed
	closed  bool // this end closed
	notify  chan struct{}
	wnotify chan struct{} // wakes a writer blocked because the peer has stopped reading (a reader may be waiting on notify)
	rdl     time.Time
	wdl     time.Time
	blockW  bool
	peer    *pipeEnd
	laddr   net.Addr
	raddr   net.Addr
	nclosed int
}

func newPipe(client, server net.Addr) (*pipeEnd, *pipeEnd) {
	c := &pipeEnd{notify: make(chan struct{}, 1), wnotify: make(chan struct{}, 1), laddr: client, raddr: server}
	s := &pipeEnd{notify: make(chan struct{}, 1), wnotify: make(chan struct{}, 1), laddr: server, raddr: client}
	c.peer, s.peer = s, c

	return c, s
}

func (p *pipeEnd) kick() {
	select {
	case p.notify <- struct{}{}:
	default:
	}
	select {
	case p.wnotify <- struct{}{}:
	default:
	}
}

func (p *pipeEnd) Read(b []byte) (int, error) {
	for {
		p.mu.Lock()
		if p.closed {
			p.mu.Unlock()

			return 0, net.ErrClosed
		}
		if len(p.buf) > 0 {
			n := copy(b, p.buf)
			p.buf = p.buf[n:]
			p.mu.Unlock()

			return n, nil
		}
		if p.eof {
			p.mu.Unlock()

			return 0, io.EOF
		}
		dl := p.rdl
		p.mu.Unlock()
		var tc <-chan time.Time
		if !dl.IsZero() {
			d := time.Until(dl)
			if d <= 0 {
				return 0, os.ErrDeadlineExceeded
			}
			tm := time.NewTimer(d)
			tc = tm.C
			defer tm.Stop()
		}
		select {
		case <-p.notify:
		case <-tc:
			return 0, os.ErrDeadlineExceeded
		}
	}
}

func (p *pipeEnd) Write(b []byte) (int, error) {
	for {
		p.mu.Lock()
		if p.closed {
			p.mu.Unlock()

			return 0, net.ErrClosed
		}
		if !p.blockW {
			p.mu.Unlock()

			break
		}
		// the peer has stopped reading: the write blocks until the stream is closed or a write deadline passes
		if !p.wdl.IsZero() && !p.wdl.After(time.Now()) {
			p.mu.Unlock()

			return 0, os.ErrDeadlineExceeded
		}
		p.mu.Unlock()
		<-p.wnotify
	}
	q := p.peer
	q.mu.Lock()
	if q.closed {
		q.mu.Unlock()

		return 0, io.ErrClosedPipe
	}
	q.buf = append(q.buf, b...)
	q.mu.Unlock()
	q.kick()

	return len(b), nil
}

func (p *pipeEnd) Close() error {
	p.mu.Lock()
	p.nclosed++
	already := p.closed
	p.closed = true
	p.mu.Unlock()
	p.kick()
	if !already {
		q := p.peer
		q.mu.Lock()
		q.eof = true
		q.mu.Unlock()
		q.kick()
	}

	return nil
}
func (p *pipeEnd) LocalAddr() net.Addr  { return p.laddr }
func (p *pipeEnd) RemoteAddr() net.Addr { return p.raddr }
func (p *pipeEnd) SetDeadline(t time.Time) error {
	_ = p.SetWriteDeadline(t)

	return p.SetReadDeadline(t)
}

func (p *pipeEnd) SetReadDeadline(t time.Time) error {
	p.mu.Lock()
	p.rdl = t
	p.mu.Unlock()
	p.kick()

	return nil
}
func (p *pipeEnd) SetWriteDeadline(t time.Time) error {
	p.mu.Lock()
	p.wdl = t
	p.mu.Unlock()
	p.kick()

	return nil
}
func (p *pipeEnd) closedByPeer() bool {
	p.mu.Lock()
	defer p.mu.Unlock()

	return p.eof
}

func (p *pipeEnd) take() []byte {
	p.mu.Lock()
	defer p.mu.Unlock()
	b := p.buf
	p.buf = nil

	return b
}

type fakeLis struct {
	ch     chan net.Conn
	closed chan struct{}
	once   sync.Once
	addr   net.Addr
}

func (l *fakeLis) Accept() (net.Conn, error) {
	select {
	case c := <-l.ch:
		return c, nil
	case <-l.closed:
		return nil, net.ErrClosed
	}
}
func (l *fakeLis) Close() error   { l.once.Do(func() { close(l.closed) }); return nil }
func (l *fakeLis) Addr() net.Addr { return l.addr }

func c15frame(b []byte) []byte {
	out := make([]byte, 2+len(b))
	binary.BigEndian.PutUint16(out, uint16(len(b))) //nolint:gosec
	copy(out[2:], b)

	return out
}

// c15first returns the first bytes a client of this kind sends, and the payload that must reach the
// ufrag's connection if the frame is acceptable ("" ufrag = must be rejected).
func c15first(kind string) (wire []byte, payload []byte, ufrag string) {
	switch kind {
	case "u1", "u9":
		m, _ := stun.Build(stun.BindingRequest, stun.TransactionID, stun.NewUsername(kind+":r"), stun.Fingerprint)

		return c15frame(m.Raw), m.Raw, kind
	case "ind": // a Binding indication with USERNAME is a STUN Binding message too
		m, _ := stun.Build(stun.NewType(stun.MethodBinding, stun.ClassIndication), stun.TransactionID, stun.NewUsername("u1:r"))

		return c15frame(m.Raw), m.Raw, "u1"
	case "nouser":
		m, _ := stun.Build(stun.BindingRequest, stun.TransactionID, stun.Fingerprint)

		return c15frame(m.Raw), nil, ""
	case "nonbinding":
		m, _ := stun.Build(stun.NewType(stun.MethodAllocate, stun.ClassRequest), stun.TransactionID, stun.NewUsername("u1:r"))

		return c15frame(m.Raw), nil, ""
	case "garbage":
		return c15frame([]byte("hello this is not stun at all......")), nil, ""
	case "oversized":
		return c15frame(make([]byte, 600)), nil, ""
	case "header": // the first byte only; the rest may follow later ("complete")
		w, p, _ := c15first("u1")

		return w[:1], p, ""
	case "closeearly", "silent":
		return nil, nil, ""
	}
	panic("client kind " + kind)
}

// ---------------------------------------------------------------- model

type tcpClient struct {
	kind     string
	end      *pipeEnd
	addr     string
	accepted time.Time
	attached int  // generation of the packet connection it was attached to (0 = none)
	done     bool // the reference expects the mux to have closed this stream
	selfDone bool // the client closed it
	wire     []byte
	sent     int // bytes of the first frame already sent
	halfSeq  int
	half     []byte
	rx       []byte   // bytes received from the mux
	wantRx   [][]byte // payloads the mux must have written to this client
	srv      *pipeEnd // the mux's end of the stream
	stopped  bool     // the client has stopped reading: writes towards it block in the stream
}

type tcpRefConn struct {
	gen         int
	ufrag       string
	provisional bool
	created     time.Time
	alive       bool
	handles     int
	expect      []string // "payload-hex@addr" in order
}

type tcpReader struct {
	gen  int
	conn net.PacketConn
	got  []string
	done chan struct{}
	mu   sync.Mutex
}

type tcpModel struct {
	cfg       muxCfg
	lis       *fakeLis
	m         *TCPMuxDefault
	front     tcpMuxFront // what the application talks to (the mux itself, or MultiTCPMuxDefault in front of it)
	clients   []*tcpClient
	conns     map[string]*tcpRefConn // by ufrag: the registered connection
	all       []*tcpRefConn
	readers   map[string][]*tcpReader // by ufrag: open handles
	gen       int
	depth     int
	muxClosed bool
	t0        time.Time
	seq       int
	problems  []vtProblem
	gotClosed  map[int][]string // packets read by handles that have been closed since, per connection generation
	everShared map[int]bool
}

const c15timeout = 30 * time.Second

type tcpMuxFront interface {
	GetConnByUfrag(ufrag string, isIPv6 bool, local net.IP) (net.PacketConn, error)
	RemoveConnByUfrag(ufrag string)
	Close() error
}

func newTCPModel(raw json.RawMessage) *tcpModel {
	tm := &tcpModel{conns: map[string]*tcpRefConn{}, readers: map[string][]*tcpReader{}, t0: time.Now(), gotClosed: map[int][]string{}, everShared: map[int]bool{}}
	_ = json.Unmarshal(raw, &tm.cfg)
	lip := net.ParseIP("10.0.0.1").To4()
	if tm.cfg.Kind == "mapped" { // a dual-stack listener reports IPv4 addresses in their 16-byte form
		lip = net.ParseIP("10.0.0.1").To16()
	}
	tm.lis = &fakeLis{ch: make(chan net.Conn), closed: make(chan struct{}), addr: &net.TCPAddr{IP: lip, Port: 7001}}
	rb := 16
	if tm.cfg.ReadBuf > 0 {
		rb = tm.cfg.ReadBuf
	}
	tm.m = NewTCPMuxDefault(TCPMuxParams{Listener: tm.lis, Logger: nopLogger{}, ReadBufferSize: rb, WriteBufferSize: tm.cfg.WriteBuffer})
	tm.front = tm.m
	if tm.cfg.Kind == "multi" {
		tm.front = NewMultiTCPMuxDefault(tm.m)
	}
	synctest.Wait()
	for _, ev := range tm.cfg.Preset {
		tm.Apply(ev)
	}
	tm.depth = 0

	return tm
}

func (tm *tcpModel) problem(finding, format string, args ...any) {
	tm.problems = append(tm.problems, vtProblem{finding, fmt.Sprintf(format, args...)})
}

var c15kinds = []string{"u1", "u9", "ind", "nouser", "nonbinding", "garbage", "oversized", "header", "silent", "closeearly"} //nolint:gochecknoglobals

func (tm *tcpModel) Enabled() []string {
	if tm.cfg.Depth > 0 && tm.depth >= tm.cfg.Depth {
		return nil
	}
	var evs []string
	if !tm.muxClosed && len(tm.clients) < 3 {
		for _, k := range c15kinds {
			evs = append(evs, "accept:"+k)
		}
	}
	for i, cl := range tm.clients {
		if cl.selfDone {
			continue
		}
		evs = append(evs, fmt.Sprintf("cclose:%d", i))
		switch {
		case cl.kind == "header" && cl.sent < len(cl.wire):
			evs = append(evs, fmt.Sprintf("complete:%d", i))
		case cl.attached != 0 || cl.done:
			evs = append(evs, fmt.Sprintf("send:%d", i), fmt.Sprintf("half:%d", i))
		case cl.sent == 0:
			evs = append(evs, fmt.Sprintf("send:%d", i))
		}
	}
	if tm.cfg.StopRead {
		for i, cl := range tm.clients {
			switch {
			case cl.selfDone || cl.done || cl.attached == 0:
			case cl.stopped:
				evs = append(evs, fmt.Sprintf("resume:%d", i))
			default:
				evs = append(evs, fmt.Sprintf("stopread:%d", i))
			}
		}
	}
	evs = append(evs, "adv15")
	for _, u := range []string{"u1", "u9"} {
		if len(tm.readers[u]) < 2 {
			evs = append(evs, "get:"+u)
		}
		if len(tm.readers[u]) > 0 {
			evs = append(evs, "hclose:"+u)
			for i, cl := range tm.clients {
				if cl.attached != 0 {
					evs = append(evs, fmt.Sprintf("write:%s:%d", u, i))
				}
			}
		}
	}
	evs = append(evs, "remove:u1", "closemux")

	return evs
}

func (tm *tcpModel) newRefConn(ufrag string, provisional bool) *tcpRefConn {
	tm.gen++
	rc := &tcpRefConn{gen: tm.gen, ufrag: ufrag, provisional: provisional, created: time.Now(), alive: true}
	tm.conns[ufrag] = rc
	tm.all = append(tm.all, rc)

	return rc
}

func (tm *tcpModel) killConn(rc *tcpRefConn) {
	if rc == nil || !rc.alive {
		return
	}
	rc.alive = false
	if tm.conns[rc.ufrag] == rc {
		delete(tm.conns, rc.ufrag)
	}
	for _, cl := range tm.clients {
		if cl.attached == rc.gen {
			cl.done = true
		}
	}
}

// refFirstFrame applies a completed first frame to the reference.
func (tm *tcpModel) refFirstFrame(cl *tcpClient, payload []byte, ufrag string) {
	if time.Since(cl.accepted) > c15timeout || cl.done || tm.muxClosed {
		return
	}
	if ufrag == "" {
		cl.done = true // rejected: the mux closes the stream, nothing is delivered

		return
	}
	rc := tm.conns[ufrag]
	if rc == nil {
		rc = tm.newRefConn(ufrag, true)
	}
	cl.attached = rc.gen
	rc.expect = append(rc.expect, fmt.Sprintf("%x@%s", payload, cl.addr))
}

func (tm *tcpModel) Apply(ev string) {
	tm.depth++
	f := strings.Split(ev, ":")
	switch f[0] {
	case "accept":
		port := 40001 + len(tm.clients)
		caddr := &net.TCPAddr{IP: net.ParseIP("192.0.2.9").To4(), Port: port}
		if tm.cfg.Kind == "mapped" {
			caddr.IP = net.ParseIP("192.0.2.9").To16()
		}
		c, s := newPipe(caddr, tm.lis.addr)
		cl := &tcpClient{kind: f[1], end: c, srv: s, addr: caddr.String(), accepted: time.Now()}
		tm.clients = append(tm.clients, cl)
		tm.lis.ch <- s
		wire, payload, ufrag := c15first(f[1])
		cl.wire = wire
		if f[1] == "header" {
			w, _, _ := c15first("u1")
			cl.wire = w
			_, _ = c.Write(w[:1])
			cl.sent = 1
		} else if wire != nil {
			_, _ = c.Write(wire)
			cl.sent = len(wire)
			tm.refFirstFrame(cl, payload, ufrag)
		}
		if f[1] == "closeearly" {
			_ = c.Close()
			cl.selfDone, cl.done = true, true
		}
	case "complete":
		i, _ := strconv.Atoi(f[1])
		cl := tm.clients[i]
		_, _ = cl.end.Write(cl.wire[cl.sent:])
		cl.sent = len(cl.wire)
		tm.refFirstFrame(cl, cl.wire[2:], "u1")
	case "send", "half":
		i, _ := strconv.Atoi(f[1])
		cl := tm.clients[i]
		deliver := func(payload []byte) {
			if cl.attached == 0 || cl.done {
				return
			}
			for _, rc := range tm.all {
				if rc.gen == cl.attached && rc.alive {
					rc.expect = append(rc.expect, fmt.Sprintf("%x@%s", payload, cl.addr))
				}
			}
		}
		switch {
		case cl.half != nil: // the rest of the frame that was started earlier
			rest, payload := cl.half[len(cl.half)/2:], cl.half[2:]
			cl.half = nil
			_, _ = cl.end.Write(rest)
			deliver(payload)
		case f[0] == "send":
			tm.seq++
			payload := []byte(fmt.Sprintf("data-%d-from-%d", tm.seq, i))
			_, _ = cl.end.Write(c15frame(payload))
			if cl.attached == 0 && !cl.done && cl.sent == 0 {
				// the very first frame of a so far silent client is not STUN: the stream is rejected
				cl.sent = 1
				tm.refFirstFrame(cl, nil, "")
			}
			deliver(payload)
		default:
			tm.seq++
			full := c15frame([]byte(fmt.Sprintf("data-%d-from-%d", tm.seq, i)))
			cl.half = full
			_, _ = cl.end.Write(full[:len(full)/2])
		}
	case "cclose":
		i, _ := strconv.Atoi(f[1])
		cl := tm.clients[i]
		_ = cl.end.Close()
		cl.selfDone, cl.done = true, true
		cl.attached = 0
	case "adv15":
		time.Sleep(15 * time.Second)
		now := time.Now()
		for _, cl := range tm.clients {
			if cl.attached == 0 && !cl.done && now.Sub(cl.accepted) >= c15timeout {
				cl.done = true // first frame is late
			}
		}
		for _, rc := range tm.all {
			if rc.alive && rc.provisional && rc.handles == 0 && now.Sub(rc.created) >= c15timeout {
				tm.killConn(rc) // unclaimed provisional connections expire
			}
		}
	case "get":
		u := f[1]
		isNew := false
		h, err := tm.front.GetConnByUfrag(u, false, net.ParseIP("10.0.0.1").To4())
		if tm.muxClosed {
			if err == nil {
				tm.problem("", "GetConnByUfrag succeeded on a closed mux")
				_ = h.Close()
			}

			break
		}
		if err != nil {
			tm.problem("", "GetConnByUfrag(%s) failed: %v", u, err)

			break
		}
		rc := tm.conns[u]
		if rc == nil {
			rc = tm.newRefConn(u, false)
			isNew = true
		}
		_ = isNew
		rc.provisional = false // claimed
		rc.handles++
		rd := &tcpReader{gen: rc.gen, conn: h, done: make(chan struct{})}
		tm.readers[u] = append(tm.readers[u], rd)
		go func() {
			defer close(rd.done)
			buf := make([]byte, 2000)
			for {
				n, from, err := h.ReadFrom(buf)
				if err != nil {
					if from == nil {
						return
					}

					continue // the end of one stream is reported with its address; not a datagram
				}
				rd.mu.Lock()
				rd.got = append(rd.got, fmt.Sprintf("%x@%v", buf[:n], from))
				rd.mu.Unlock()
			}
		}()
	case "hclose":
		u := f[1]
		rd := tm.readers[u][0]
		tm.readers[u] = tm.readers[u][1:]
		_ = rd.conn.Close()
		synctest.Wait()
		rd.mu.Lock()
		tm.gotClosed[rd.gen] = append(tm.gotClosed[rd.gen], rd.got...)
		rd.mu.Unlock()
		tm.everShared[rd.gen] = true
		for _, rc := range tm.all {
			if rc.gen == rd.gen {
				rc.handles--
				if rc.handles == 0 {
					tm.killConn(rc)
				}
			}
		}
	case "write":
		u := f[1]
		i, _ := strconv.Atoi(f[2])
		cl := tm.clients[i]
		rd := tm.readers[u][0]
		payload := []byte(fmt.Sprintf("reply-%d-to-%d", tm.depth, i))
		a, _ := net.ResolveTCPAddr("tcp", cl.addr)
		_, err := rd.conn.WriteTo(payload, a)
		live := false
		for _, rc := range tm.all {
			live = live || (rc.gen == rd.gen && rc.alive && cl.attached == rc.gen && !cl.done)
		}
		if live && cl.stopped {
			// the stream takes nothing: the reply is queued (nil) or refused because the write buffer is full; what was
			// refused must never reach the client, not even in part
			if err == nil {
				cl.wantRx = append(cl.wantRx, payload)
			}
		} else if live {
			if err != nil {
				tm.problem("", "reply to client %d over its own stream failed: %v", i, err)
			}
			cl.wantRx = append(cl.wantRx, payload)
		} else if err == nil {
			tm.problem("", "a reply to %s was accepted although that client is not attached to this connection", cl.addr)
		}
	case "stopread", "resume":
		i, _ := strconv.Atoi(f[1])
		cl := tm.clients[i]
		cl.stopped = f[0] == "stopread"
		cl.srv.mu.Lock()
		cl.srv.blockW = cl.stopped
		cl.srv.mu.Unlock()
		cl.srv.kick()
	case "remove":
		tm.front.RemoveConnByUfrag(f[1])
		tm.killConn(tm.conns[f[1]])
	case "closemux":
		if err := tm.front.Close(); err != nil {
			tm.problem("", "mux Close returned %v", err)
		}
		tm.muxClosed = true
		for _, rc := range tm.all {
			tm.killConn(rc)
		}
		for _, cl := range tm.clients {
			cl.done = true
		}
	default:
		panic("unknown event " + ev)
	}
	synctest.Wait()
	tm.check()
}

func (tm *tcpModel) check() {
	// routing: the readers of a connection have received exactly what the reference routes to it, in order
	for u, rds := range tm.readers {
		byGen := map[int][]*tcpReader{}
		for _, rd := range rds {
			byGen[rd.gen] = append(byGen[rd.gen], rd)
		}
		for gen, grp := range byGen {
			var exp []string
			for _, rc := range tm.all {
				if rc.gen == gen {
					exp = rc.expect
				}
			}
			got := append([]string{}, tm.gotClosed[gen]...)
			shared := len(grp) > 1 || len(tm.gotClosed[gen]) > 0 || tm.everShared[gen]
			for _, rd := range grp {
				rd.mu.Lock()
				got = append(got, rd.got...)
				rd.mu.Unlock()
			}
			if len(got) > len(exp) {
				tm.problem("", "connection of %s received %d packet(s), the reference routes %d to it (last: %.50s)", u, len(got), len(exp), got[len(got)-1])
			} else if len(got) < len(exp) {
				tm.problem("", "connection of %s received %d of the %d packet(s) routed to it", u, len(got), len(exp))
			}
			if shared {
				// several handles share the queue: who reads what is free, the multiset is not
				a, b := append([]string{}, got...), append([]string{}, exp...)
				sort.Strings(a)
				sort.Strings(b)
				for i := 0; i < len(a) && i < len(b); i++ {
					if a[i] != b[i] {
						tm.problem("", "connection of %s: the packets read by its handles are not the packets sent to it", u)

						break
					}
				}

				continue
			}
			// order is a matter of each TCP connection (what one client sent arrives in the order it was sent); how the
			// streams of several clients interleave in the connection's queue is free (with a backlog it is not arrival order)
			perPeer := func(l []string) map[string][]string {
				out := map[string][]string{}
				for _, x := range l {
					at := x[strings.LastIndex(x, "@")+1:]
					out[at] = append(out[at], x)
				}

				return out
			}
			gp, ep := perPeer(got), perPeer(exp)
			for at, el := range ep {
				gl := gp[at]
				for i := 0; i < len(gl) && i < len(el); i++ {
					if gl[i] != el[i] {
						tm.problem("", "connection of %s: packet %d from %s differs from what that client sent (content or order)", u, i, at)

						break
					}
				}
				if len(gl) > len(el) {
					tm.problem("", "connection of %s: more packets from %s than it sent", u, at)
				}
			}
			for at := range gp {
				if _, ok := ep[at]; !ok {
					tm.problem("", "connection of %s: packets from %s, which the reference does not route to it", u, at)
				}
			}
		}
	}
	// replies go back over the client's own stream, framed
	for i, cl := range tm.clients {
		cl.rx = append(cl.rx, cl.end.take()...)
		var want []byte
		for _, p := range cl.wantRx {
			want = append(want, c15frame(p)...)
		}
		if cl.stopped || (cl.done && tm.cfg.StopRead) {
			// nothing more arrives while the client does not read (or after its stream ended with replies still queued); what
			// has arrived is a prefix of the accepted replies, cut at a frame boundary or inside the frame the stream took last
			if !strings.HasPrefix(string(want), string(cl.rx)) {
				tm.problem("", "client %d (not reading) holds %d byte(s) that are not a prefix of the framed replies accepted for it", i, len(cl.rx))
				cl.wantRx, cl.rx = nil, nil
			}
		} else if string(cl.rx) != string(want) {
			tm.problem("", "client %d received %d byte(s) from the mux, expected %d (framed replies addressed to it)", i, len(cl.rx), len(want))
			cl.wantRx, cl.rx = nil, nil
		}
		if cl.done && !cl.selfDone && !cl.end.closedByPeer() {
			tm.problem("", "stream of client %d (%s) should have been closed by the mux and is still open", i, cl.kind)
		}
		if !cl.done && cl.end.closedByPeer() {
			tm.problem("", "stream of client %d (%s) was closed by the mux without reason", i, cl.kind)
		}
	}
	// registry: expired / removed connections are gone
	tm.m.mu.Lock()
	for u := range tm.m.connsIPv4 {
		if tm.conns[u] == nil {
			tm.problems = append(tm.problems, vtProblem{"", fmt.Sprintf("ufrag %s is still registered although its connection has ended", u)})
		}
	}
	for u := range tm.conns {
		if _, ok := tm.m.connsIPv4[u]; !ok {
			tm.problems = append(tm.problems, vtProblem{"", fmt.Sprintf("ufrag %s has lost its registration", u)})
		}
	}
	tm.m.mu.Unlock()
	if tm.muxClosed {
		select {
		case <-tm.lis.closed:
		default:
			tm.problem("", "listener still open after Close")
		}
	}
}

func (tm *tcpModel) Key() (string, []int) {
	var cs []string
	for i, cl := range tm.clients {
		age := int(time.Since(cl.accepted) / (15 * time.Second))
		if age > 2 {
			age = 2
		}
		queued := 0 // accepted replies the client has not received yet (they sit in the write buffer or in the blocked write)
		for _, w := range cl.wantRx {
			queued += len(w) + 2
		}
		queued -= len(cl.rx)
		cs = append(cs, fmt.Sprintf("%d:%s att=%d done=%v self=%v sent=%d half=%v age=%d stop=%v q=%d", i, cl.kind, cl.attached, cl.done, cl.selfDone, cl.sent, cl.half != nil, age, cl.stopped, queued))
	}
	var rs []string
	for _, rc := range tm.all {
		age := int(time.Since(rc.created) / (15 * time.Second))
		if age > 2 {
			age = 2
		}
		if rc.alive {
			rs = append(rs, fmt.Sprintf("%d:%s prov=%v h=%d age=%d n=%d", rc.gen, rc.ufrag, rc.provisional, rc.handles, age, len(rc.expect)))
		}
	}
	var hs []string
	for u, rds := range tm.readers {
		for _, rd := range rds {
			hs = append(hs, fmt.Sprintf("%s:%d", u, rd.gen))
		}
	}
	sort.Strings(hs)
	// implementation side
	var ik []string
	tm.m.mu.Lock()
	for u, mm := range tm.m.connsIPv4 {
		for k, pc := range mm {
			pc.mu.Lock()
			// what sits in the write buffers is state of the implementation that decides what a client will read later
			var bufs []string
			for addr, cn := range pc.conns {
				if bc, ok := cn.(*bufferedConn); ok {
					bufs = append(bufs, fmt.Sprintf("%s:%d/%d", addr, bc.buf.Count(), bc.buf.Size()))
				}
			}
			sort.Strings(bufs)
			ik = append(ik, fmt.Sprintf("%s/%s streams=%d wbuf=%v", u, k, len(pc.conns), bufs))
			pc.mu.Unlock()
		}
	}
	closed := tm.m.closed
	tm.m.mu.Unlock()
	sort.Strings(ik)

	return strings.Join(cs, ";") + "|" + strings.Join(rs, ";") + "|" + strings.Join(hs, ",") + "##" + strings.Join(ik, ",") + fmt.Sprintf(" closed=%v gen=%d", closed, tm.gen), []int{tm.depth}
}

func (tm *tcpModel) Problems() []vtProblem {
	p := tm.problems
	tm.problems = nil

	return p
}

func (tm *tcpModel) Finish() []vtProblem { return nil }

func (tm *tcpModel) Close() {
	for _, rds := range tm.readers {
		for _, rd := range rds {
			_ = rd.conn.Close()
		}
	}
	if !tm.muxClosed {
		_ = tm.front.Close() // must return only when every goroutine of the mux has ended, whatever the clients do
	}
	for _, cl := range tm.clients {
		_ = cl.end.Close()
	}
	synctest.Wait()
	for _, rds := range tm.readers {
		for _, rd := range rds {
			<-rd.done
		}
	}
}

func checkC15(c *runCtx) {
	c.assume("streams are in-bubble pipes with read deadlines on the virtual clock; FirstStunBindTimeout and AliveDurationForConnFromStun are the 30 s defaults; the clock advances in 15 s steps (both sides of both deadlines are reached)",
		"when two handles share one connection, which handle reads a given packet is not constrained",
		"the end of a stream is reported to the reader as an error carrying the peer address; it is not counted as a packet")
	p := newVTPool()
	defer p.close()
	dl := c01deadline(c, 400, 1500)
	depth := 6
	if !c.quick() {
		depth = 7
	}
	vtSearch(c, p, vtSpec{Name: fmt.Sprintf("TCPMuxDefault, all sequences of length <= %d, <= 3 clients of 10 kinds", depth), Model: "tcpmux", Cfg: muxCfg{Depth: depth}, Deadline: dl})
	vtSearch(c, p, vtSpec{Name: fmt.Sprintf("TCPMuxDefault whose connections queue one packet (a backlog builds up behind a connection nobody reads: provisional ones, slow readers), all sequences of length <= %d", depth-1), Model: "tcpmux",
		Cfg: muxCfg{Depth: depth - 1, ReadBuf: 1}, Deadline: dl})
	// one ufrag with a packet connection on each of two local addresses (both closing orders)
	if probs, n := c15twoLocals(c.t); true {
		c.add("transitions", n)
		for _, pr := range probs {
			c.violation("", "one ufrag on two local addresses: "+pr, map[string]any{"part": "two-local-addresses"})
		}
	}
	vtSearch(c, p, vtSpec{Name: fmt.Sprintf("TCPMuxDefault with a write buffer, all sequences of length <= %d", depth-1), Model: "tcpmux", Cfg: muxCfg{Depth: depth - 1, WriteBuffer: 4096}, Deadline: dl})
	vtSearch(c, p, vtSpec{Name: fmt.Sprintf("TCPMuxDefault with a 24-byte write buffer and a client that stops reading (replies queue up, the buffer fills, the client resumes), from one attached client with an open handle, all sequences of length <= %d", depth), Model: "tcpmux",
		Cfg: muxCfg{Depth: depth, WriteBuffer: 24, StopRead: true, Preset: []string{"accept:u1", "get:u1"}}, Deadline: dl})
	vtSearch(c, p, vtSpec{Name: fmt.Sprintf("MultiTCPMuxDefault in front of the mux, all sequences of length <= %d", depth-2), Model: "tcpmux", Cfg: muxCfg{Depth: depth - 2, Kind: "multi"}, Deadline: dl})
	vtSearch(c, p, vtSpec{Name: fmt.Sprintf("listener and streams report IPv4 addresses in 16-byte form (dual-stack socket), all sequences of length <= %d", depth-2), Model: "tcpmux", Cfg: muxCfg{Depth: depth - 2, Kind: "mapped"}, Deadline: dl})
	if os.Getenv("VERIF_VARIANT") == "instr" {
		b := 4
		if !c.quick() {
			b = 5
		}
		csExplore(c, "tcpmux-close-vs-getconn", b, dl, nil)
		csExplore(c, "tcpmux-close-vs-firstframe", b-1, dl, nil)
		csExplore(c, "tcpconn-deadline-read", b, dl, nil)
	} else {
		c.capHit("built without instrumentation: the concurrent scenario was not run")
	}
}
