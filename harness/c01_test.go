package ice

// C01 — two agents converge on the same, working candidate pair. Engine VT.

import (
	"sort"
	"encoding/json"
	"errors"
	"fmt"
	"os"
	"strings"
	"time"

	"github.com/pion/ice/v4/internal/taskloop"
)

func init() {
	registerCheck("C01", checkC01)
	vReplayers["C01"] = vtReplay
	vtModels["pair"] = func(cfg json.RawMessage) vtModel { return &pairModel{pairWorld: newPairWorld(cfg)} }
}

// pairModel: alphabet {tick A, tick B, deliver/drop/dup any in-flight datagram, restart A/B, offer, answer}.
type pairModel struct {
	*pairWorld
	lastDefault string
}

func (m *pairModel) settled() bool {
	if len(m.inflight) > 0 {
		return false
	}
	for _, s := range m.side {
		if s.agent.getSelectedPair() == nil {
			return false
		}
	}

	return m.exch == 0 && m.side[0].gen == m.side[1].gen && (len(m.unsignalled()) == 0 || len(m.cfg.HoldSignal) > 0)
}

func (m *pairModel) all() []string {
	if m.settled() {
		return nil // both selected and nothing in flight: the rest is keepalive traffic (C04)
	}
	evs := append(m.tickEvents(), m.netEvents()...)
	evs = append(evs, m.unsignalled()...)
	if m.waits < m.cfg.Waits {
		evs = append(evs, "wait")
	}
	switch m.exch {
	case 0:
		if m.exchanges < m.cfg.Restarts {
			evs = append(evs, "restart:0", "restart:1")
		}
	case 1:
		evs = append(evs, "offer")
	case 2:
		evs = append(evs, "answer")
	}

	return evs
}

// defaultEvent is the default environment of the deviation-bounded discipline: deliver the oldest
// datagram; with an empty network tick the agent that has ticked less (A first).
func (m *pairModel) defaultEvent() string {
	if m.settled() {
		return ""
	}
	switch m.exch { // signalling proceeds by default; letting other events overtake it is a deviation
	case 1:
		return "offer"
	case 2:
		return "answer"
	}
	for _, u := range m.unsignalled() { // trickled candidates arrive by default; a held one (HoldSignal) only as a deviation
		held := false
		for _, h := range m.cfg.HoldSignal {
			held = held || u == "signal:"+h
		}
		if !held {
			return u
		}
	}
	if len(m.inflight) > 0 {
		return fmt.Sprintf("deliver:%d", m.inflight[0].seq)
	}
	a, b := m.side[0].ticks, m.side[1].ticks
	if a <= b && a < m.cfg.Ticks {
		return "tick:0"
	}
	if b < m.cfg.Ticks {
		return "tick:1"
	}
	if a < m.cfg.Ticks {
		return "tick:0"
	}

	return ""
}

func (m *pairModel) Enabled() []string {
	if m.cfg.Dev == 0 {
		return m.all()
	}
	def := m.defaultEvent()
	var evs []string
	if def != "" {
		evs = append(evs, def)
	}
	if m.devs < m.cfg.Dev {
		for _, e := range m.all() {
			if e != def {
				evs = append(evs, e)
			}
		}
	}

	return evs
}

func (m *pairModel) Apply(ev string) {
	if m.cfg.Dev > 0 && ev != m.defaultEvent() {
		m.devs++
	}
	defer func() {
		if m.cfg.Monitor {
			m.checkSelections()
		}
	}()
	if m.applyBasic(ev) {
		return
	}
	kind, arg, _ := strings.Cut(ev, ":")
	switch kind {
	case "wait": // the clock moves on (acceptance waits are measured from the start of the checks)
		m.waits++
		time.Sleep(600 * time.Millisecond)
		settle()

		return
	case "signal":
		i, j := int(arg[0]-'0'), 0
		fmt.Sscan(arg[2:], &j) //nolint:errcheck
		m.signalOne(m.side[i], m.side[1-i], j)

		return
	case "restart":
		m.restart(int(arg[0] - '0'))

		return
	case "offer":
		m.offerArrives()

		return
	case "answer":
		m.answerArrives()

		return
	}
	panic("unknown event " + ev)
}

// An ICE restart is an offer/answer exchange (RFC 8445 section 9: the agent that receives a restart must restart
// too, and each side learns the other's new credentials and candidates only from the offer resp. the answer):
//   restart:i  the initiator restarts and gathers (new credentials, fresh sockets); its offer is under way
//   offer      the offer arrives: the responder restarts as well, applies the initiator's credentials and
//              candidates; its answer is under way
//   answer     the answer arrives: the initiator applies the responder's credentials and candidates
// Old-generation datagrams stay in flight and any other event may come in between.
func (pw *pairWorld) restartSide(s *sideState) {
	s.gen++
	pw.ledgers[s.idx].reset()
	s.ufrag = fmt.Sprintf("%sg%d", s.ufrag[:9], s.gen)
	s.pwd = fmt.Sprintf("%sg%d", s.pwd[:28-4], s.gen)
	if err := s.agent.Restart(s.ufrag, s.pwd); err != nil {
		if !errors.Is(err, ErrClosed) && !errors.Is(err, taskloop.ErrClosed) { // a handler may close the agent in the middle of the exchange (C08)
			pw.problem("", "Restart: %v", err)
		}

		return
	}
	settle() // let the handlers run that the restart triggered: one of them may close the agent (C08)
	if s.agent.loop.Err() != nil {
		return
	}
	kinds, prios := pw.cfg.KindsA, pw.cfg.PrioA
	if s.idx == 1 {
		kinds, prios = pw.cfg.KindsB, pw.cfg.PrioB
	}
	pw.addLocals(s, kinds, prios)
}

func (pw *pairWorld) restart(i int) {
	pw.side[i].restarts++
	pw.exchanges++
	pw.exch, pw.exchInit = 1, i
	pw.restartSide(pw.side[i])
}

func (pw *pairWorld) offerArrives() {
	s, peer := pw.side[pw.exchInit], pw.side[1-pw.exchInit]
	pw.restartSide(peer)
	if err := peer.agent.SetRemoteCredentials(s.ufrag, s.pwd); err != nil {
		if !errors.Is(err, ErrClosed) && !errors.Is(err, taskloop.ErrClosed) {
			pw.problem("", "SetRemoteCredentials(responder): %v", err)
		}
	}
	pw.signalAll(s, peer)
	pw.exch = 2
}

func (pw *pairWorld) answerArrives() {
	s, peer := pw.side[pw.exchInit], pw.side[1-pw.exchInit]
	if err := s.agent.SetRemoteCredentials(peer.ufrag, peer.pwd); err != nil {
		if !errors.Is(err, ErrClosed) && !errors.Is(err, taskloop.ErrClosed) {
			pw.problem("", "SetRemoteCredentials(initiator): %v", err)
		}
	}
	pw.signalAll(peer, s)
	pw.exch = 0
}

func (m *pairModel) Key() (string, []int) {
	spent := []int{m.side[0].ticks, m.side[1].ticks, m.drops, m.dups, m.devs, m.exchanges, m.waits}

	k := m.canon() + fmt.Sprintf(" gen=%d/%d exch=%d/%d sig=%v/%v lost=%v", m.side[0].gen, m.side[1].gen, m.exch, m.exchInit*m.exch, m.side[0].sigDone, m.side[1].sigDone, m.lost)
	if m.cfg.Waits > 0 {
		k += fmt.Sprintf(" clock=+%dx600ms", m.waits) // the selectors read the time since they started
	}
	if m.cfg.Monitor {
		k += " ledger=" + m.ledgers[0].summary() + "/" + m.ledgers[1].summary()
	}

	return k, spent
}

func connectedSeen(states []ConnectionState) bool {
	for _, s := range states {
		if s == ConnectionStateConnected {
			return true
		}
	}

	return false
}

// safety oracles, evaluated at every state.
func (m *pairModel) Problems() []vtProblem {
	bidir := m.bidirectional()
	for i, s := range m.side {
		sp := s.agent.getSelectedPair()
		if !bidir {
			if sp != nil {
				m.problem("", "agent %s has a selected pair %s>%s although no pair is reachable in both directions", s.name, sp.Local.addr(), sp.Remote.addr())
			}
			if connectedSeen(s.states) {
				m.problem("", "agent %s reported Connected although no pair is reachable in both directions (states %v)", s.name, s.states)
			}
		}
		if sp != nil && s.gen == m.side[1-i].gen {
			if m.byPublic[sp.Remote.addr().String()] == nil || !strings.HasPrefix(m.byPublic[sp.Remote.addr().String()].name, strings.ToLower(m.side[1-i].name)) {
				m.problem("", "agent %s selected remote %s which is not an address of the peer", s.name, sp.Remote.addr())
			} else if !m.pairReachable(sp.Local, sp.Remote.addr().String()) {
				m.problem("", "agent %s selected %s>%s which is not reachable in both directions", s.name, sp.Local.addr(), sp.Remote.addr())
			}
		}
	}
	p := m.problems
	m.problems = nil

	return p
}

// Finish: the fair loss-free suffix, then the convergence oracle.
func (m *pairModel) Finish() []vtProblem {
	if m.exch != 0 || m.side[0].gen != m.side[1].gen {
		return nil // a half-done restart exchange is not a session the statement speaks about
	}
	// signalling eventually completes
	m.signalAll(m.side[1], m.side[0])
	m.signalAll(m.side[0], m.side[1])
	rounds := m.cfg.FairMax
	if rounds == 0 {
		rounds = 4
	}
	bidir := m.bidirectional()
	if m.cfg.Waits > 0 {
		time.Sleep(2100 * time.Millisecond) // eventually every acceptance wait is over
		settle()
	}
	m.fairSuffix(rounds, func() bool {
		return m.side[0].agent.getSelectedPair() != nil && m.side[1].agent.getSelectedPair() != nil
	})
	sa, sb := m.side[0].agent.getSelectedPair(), m.side[1].agent.getSelectedPair()
	if !bidir {
		if sa != nil || sb != nil || connectedSeen(m.side[0].states) || connectedSeen(m.side[1].states) {
			m.problem("", "no bidirectional pair, yet after the fair suffix selected A=%v B=%v states A=%v B=%v", sa, sb, m.side[0].states, m.side[1].states)
		}
	} else {
		ca, cb := m.side[0].agent.connectionState, m.side[1].agent.connectionState
		switch {
		case sa == nil || sb == nil || ca != ConnectionStateConnected || cb != ConnectionStateConnected:
			m.problem("", "not converged after the fair suffix: A state=%s selected=%v; B state=%s selected=%v", ca, sa, cb, sb)
		case m.side[0].agent.isControlling.Load() == m.side[1].agent.isControlling.Load():
			m.problem("", "both agents ended in the same role (controlling=%v)", m.side[0].agent.isControlling.Load())
		case m.localWire(sa.Local) != sb.Remote.addr().String() || m.localWire(sb.Local) != sa.Remote.addr().String():
			m.problem("", "selected pairs are not mirror images: A %s(wire %s)>%s, B %s(wire %s)>%s", sa.Local.addr(), m.localWire(sa.Local), sa.Remote.addr(),
				sb.Local.addr(), m.localWire(sb.Local), sb.Remote.addr())
		}
	}

	return m.Problems()
}

// ---------------------------------------------------------------- the check

func c01deadline(c *runCtx, quickS, thoroughS int) time.Time {
	s := quickS
	if !c.quick() {
		s = thoroughS
	}
	if v := os.Getenv("VERIF_BUDGET_S"); v != "" {
		var n int
		if _, err := fmt.Sscan(v, &n); err == nil && n > 0 {
			s = n
		}
	}

	return c.start.Add(time.Duration(s) * time.Second)
}

func checkC01(c *runCtx) {
	c.assume("acceptance min-wait timers are set to 0 and the clock is frozen (time enters C01 only through timeouts, which are C04's subject)",
		"ticks are issued by the harness through hook H1; the forced first contact of the real timer loop is one of the explored tick placements",
		"NATs are endpoint-independent (cone); filtering is expressed by the reachability relation")
	p := newVTPool()
	defer p.close()
	dl := c01deadline(c, 240, 1500)
	host1 := []string{"host"}
	host2 := []string{"host", "host"}
	type sp struct {
		name string
		cfg  pairCfg
	}
	var specs []sp
	// full BFS, 1x1, all four reachability cases
	specs = append(specs,
		sp{"1x1 reachable, full BFS", pairCfg{KindsA: host1, KindsB: host1, Ticks: 2, Drops: 1, Dups: 1}},
		sp{"1x1 A>B only, full BFS", pairCfg{KindsA: host1, KindsB: host1, Blocked: []string{"b0>a0"}, Ticks: 3, Drops: 1, Dups: 1}},
		sp{"1x1 B>A only, full BFS", pairCfg{KindsA: host1, KindsB: host1, Blocked: []string{"a0>b0"}, Ticks: 3, Drops: 1, Dups: 1}},
		sp{"1x1 unreachable, full BFS", pairCfg{KindsA: host1, KindsB: host1, Blocked: []string{"a0>b0", "b0>a0"}, Ticks: 3, Drops: 1, Dups: 1}},
	)
	// distinct priorities: a full BFS without loss (pure reordering and tick placement)
	specs = append(specs,
		sp{"1x2 distinct priorities, full BFS, reordering only", pairCfg{KindsA: host1, KindsB: host2, PrioB: []uint32{2130706431, 1694498815}, Ticks: 2}},
	)
	// deviation-bounded, larger topologies
	specs = append(specs,
		sp{"2x1 reachable, D<=2", pairCfg{KindsA: host2, KindsB: host1, Ticks: 3, Drops: 2, Dups: 2, Dev: 2}},
		sp{"2x2 reachable, D<=2", pairCfg{KindsA: host2, KindsB: host2, Ticks: 3, Drops: 2, Dups: 2, Dev: 2}},
		sp{"2x2 only a1<->b0 works, D<=2", pairCfg{KindsA: host2, KindsB: host2, Blocked: []string{"a0>b0", "a0>b1", "b1>a1"}, Ticks: 3, Drops: 2, Dups: 2, Dev: 2}},
		sp{"1x1 A behind NAT (prflx discovery), D<=2", pairCfg{KindsA: []string{"nat"}, KindsB: host1, Ticks: 3, Drops: 2, Dups: 2, Dev: 2}},
		sp{"2x1 A: srflx+host-behind-NAT, D<=2", pairCfg{KindsA: []string{"nat", "srflx"}, KindsB: host1, Ticks: 3, Drops: 2, Dups: 2, Dev: 2}},
		sp{"1x1 B behind NAT with a srflx candidate, default acceptance waits, the clock advances at any point (<=2 x 600 ms), D<=2", pairCfg{KindsA: host1, KindsB: []string{"srflx"}, Ticks: 3, Drops: 1, Dups: 1, Dev: 2, Waits: 2}},
		sp{"1x1 both behind NAT with srflx candidates, D<=2", pairCfg{KindsA: []string{"srflx"}, KindsB: []string{"srflx"}, Ticks: 3, Drops: 2, Dups: 2, Dev: 2}},
		sp{"1x1 both behind NAT, only private addresses signalled (no usable pair), D<=2", pairCfg{KindsA: []string{"nat"}, KindsB: []string{"nat"}, Ticks: 3, Drops: 2, Dups: 2, Dev: 2}},
		sp{"3x3 reachable, D<=1", pairCfg{KindsA: []string{"host", "host", "host"}, KindsB: []string{"host", "host", "host"}, Ticks: 3, Drops: 1, Dups: 1, Dev: 1}},
		sp{"4x4 reachable, D<=1", pairCfg{KindsA: []string{"host", "host", "host", "host"}, KindsB: []string{"host", "host", "host", "host"}, Ticks: 3, Drops: 1, Dups: 1, Dev: 1}},
	)
	// a loss prefix as long as the retry budget: the first 7 checks of one side vanish, the next one must still be sent and connect
	specs = append(specs,
		sp{"1x1, the first 7 checks of the controlling side are lost, D<=1", pairCfg{KindsA: host1, KindsB: host1, LoseA: 7, Ticks: 9, Dev: 1, FairMax: 10}},
		sp{"1x1, the first 7 checks of the controlled side are lost, D<=1", pairCfg{KindsA: host1, KindsB: host1, LoseB: 7, Ticks: 9, Dev: 1, FairMax: 10}},
	)
	// trickle: each candidate reaches the peer as an event of its own (peer-reflexive candidates superseded by signalled ones)
	specs = append(specs,
		sp{"1x1 trickled candidates, full BFS, reordering only", pairCfg{KindsA: host1, KindsB: host1, Trickle: true, Ticks: 2}},
		sp{"2x1 trickled candidates, D<=2", pairCfg{KindsA: host2, KindsB: host1, Trickle: true, Ticks: 3, Drops: 1, Dups: 1, Dev: 2}},
	)
	// restarted sessions: one offer/answer restart exchange started at any step by either side
	specs = append(specs,
		sp{"1x1 restart exchange at any step, D<=2", pairCfg{KindsA: host1, KindsB: host1, Ticks: 4, Drops: 1, Dups: 1, Dev: 2, Restarts: 1}},
	)
	if !c.quick() {
		specs = append(specs,
			sp{"1x1 reachable, full BFS, 3 ticks 2 drops", pairCfg{KindsA: host1, KindsB: host1, Ticks: 3, Drops: 2, Dups: 1}},
			sp{"2x1 reachable, full BFS", pairCfg{KindsA: host2, KindsB: host1, Ticks: 2, Drops: 1, Dups: 0}},
			sp{"2x2 reachable, D<=3", pairCfg{KindsA: host2, KindsB: host2, Ticks: 3, Drops: 3, Dups: 3, Dev: 3}},
			sp{"3x3 reachable, D<=2", pairCfg{KindsA: []string{"host", "host", "host"}, KindsB: []string{"host", "host", "host"}, Ticks: 3, Drops: 2, Dups: 2, Dev: 2}},
			sp{"1x1 restart exchange at any step, D<=3", pairCfg{KindsA: host1, KindsB: host1, Ticks: 4, Drops: 2, Dups: 2, Dev: 3, Restarts: 1}},
			sp{"2x1 restart exchange at any step, D<=2", pairCfg{KindsA: host2, KindsB: host1, Ticks: 4, Drops: 1, Dups: 1, Dev: 2, Restarts: 1}},
			sp{"2x2 trickled candidates, D<=2", pairCfg{KindsA: host2, KindsB: host2, Trickle: true, Ticks: 3, Drops: 1, Dups: 1, Dev: 2}},
			sp{"1x1 trickled candidates, full BFS with one drop and one dup", pairCfg{KindsA: host1, KindsB: host1, Trickle: true, Ticks: 2, Drops: 1, Dups: 1}},
			sp{"1x1 two restart exchanges, D<=3", pairCfg{KindsA: host1, KindsB: host1, Ticks: 4, Drops: 1, Dups: 1, Dev: 3, Restarts: 2}},
		)
		// every 2x1 reachability matrix (16), D<=2
		links := []string{"a0>b0", "b0>a0", "a1>b0", "b0>a1"}
		for mask := 1; mask < 16; mask++ {
			var bl []string
			for i, l := range links {
				if mask&(1<<i) != 0 {
					bl = append(bl, l)
				}
			}
			specs = append(specs, sp{fmt.Sprintf("2x1 blocked %v, D<=2", bl), pairCfg{KindsA: host2, KindsB: host1, Blocked: bl, Ticks: 3, Drops: 2, Dups: 2, Dev: 2}})
		}
	}
	if only := os.Getenv("VERIF_ONLY"); only != "" {
		var f []sp
		for _, s := range specs {
			if strings.Contains(s.name, only) {
				f = append(f, s)
			}
		}
		specs = f
	}
	// the budget is shared fairly: a search may use twice its even share of what is left (searches that end early hand
	// their time on), so that one search whose state space a defect inflates cannot starve the others; the full breadth-first
	// searches, which are the largest, run last
	sort.SliceStable(specs, func(i, j int) bool {
		return !strings.Contains(specs[i].name, "full BFS") && strings.Contains(specs[j].name, "full BFS")
	})
	for i, s := range specs {
		d := dl
		if left := time.Until(dl); left > 0 {
			if share := time.Now().Add(2 * left / time.Duration(len(specs)-i)); share.Before(d) {
				d = share
			}
		}
		vtSearch(c, p, vtSpec{Name: s.name, Model: "pair", Cfg: s.cfg, Finish: true, Deadline: d})
	}
}
