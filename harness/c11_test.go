package ice

// C11 — callbacks are delivered in order, one at a time, exactly once.
// Engine CS fine mode on agent_handlers.go (the three notifier streams).

import (
	"context"
	"fmt"
	"time"

	"github.com/pion/ice/v4/internal/zzmc"
)

func init() {
	registerCheck("C11", checkC11)
	vReplayers["C11"] = anyReplay
	for _, stream := range []string{"state", "candidate", "pair"} {
		for _, mode := range []string{"graceful", "abrupt", "reenter", "close-in-handler", "two-enqueuers"} {
			stream, mode := stream, mode
			csScenarios["notifier-"+stream+"-"+mode] = func() zzmc.Scenario { return c11scenario(stream, mode) }
		}
	}
}

func c11scenario(stream, mode string) zzmc.Scenario {
	return zzmc.Scenario{
		Name:     "notifier-" + stream + "-" + mode,
		Focus:    []string{"agent_handlers.go"},
		MaxSteps: 1500,
		Setup: func(s *zzmc.Sched) func(string) (string, string) {
			fail := ""
			var delivered []int
			inHandler := 0
			closeCalled, closeReturned := false, false
			deliveredAtCloseReturn := -1
			accepted := map[int]bool{} // the whole Enqueue call happened before Close was even called
			graceful := mode != "abrupt"
			h := &handlerNotifier{done: make(chan struct{})}
			cands := map[int]Candidate{}
			pairs := map[int]*CandidatePair{}
			var enqueue func(i int)
			handler := func(i int) {
				inHandler++
				if inHandler > 1 {
					fail += "OVERLAP "
				}
				if closeReturned && graceful && mode != "close-in-handler" {
					fail += "INVOKED-AFTER-GRACEFUL-CLOSE "
				}
				zzmc.HarnessPoint("handler.body") // a slow handler
				delivered = append(delivered, i)
				if mode == "reenter" && i == 1 {
					enqueue(50) // the handler calls back into the notifier
				}
				if mode == "close-in-handler" && i == 2 {
					h.Close(false) // Close from inside a callback is allowed (not the graceful variant)
				}
				inHandler--
			}
			switch stream {
			case "state":
				h.connectionStateFunc = func(cs ConnectionState) { handler(int(cs)) }
				enqueue = func(i int) { h.EnqueueConnectionState(ConnectionState(i)) }
			case "candidate":
				h.candidateFunc = func(c Candidate) { handler(c.Port()) }
				enqueue = func(i int) {
					if cands[i] == nil {
						cands[i], _ = NewCandidateHost(&CandidateHostConfig{Network: "udp", Address: "10.0.0.1", Port: i, Component: 1})
					}
					h.EnqueueCandidate(cands[i])
				}
			default:
				h.candidatePairFunc = func(p *CandidatePair) { handler(int(p.id)) } //nolint:gosec
				enqueue = func(i int) {
					if pairs[i] == nil {
						pairs[i] = &CandidatePair{id: uint64(i)} //nolint:gosec
					}
					h.EnqueueSelectedCandidatePair(pairs[i])
				}
			}
			s.Go("E", func() {
				for i := 1; i <= 3; i++ {
					before := !closeCalled
					enqueue(i)
					if before && !closeCalled {
						accepted[i] = true
					}
				}
			})
			if mode == "two-enqueuers" {
				s.Go("E2", func() {
					for i := 11; i <= 12; i++ {
						before := !closeCalled
						enqueue(i)
						if before && !closeCalled {
							accepted[i] = true
						}
					}
				})
			}
			if mode != "close-in-handler" {
				s.Go("K", func() {
					closeCalled = true
					h.Close(graceful)
					closeReturned = true
					deliveredAtCloseReturn = len(delivered)
					if graceful && inHandler != 0 {
						fail += "HANDLER-ACTIVE-AT-GRACEFUL-RETURN "
					}
					enqueue(99) // after Close returned: must be dropped
				})
			}

			return func(dead string) (string, string) {
				if dead != "" {
					h.Close(false)
				}
				// per enqueuer, delivery order = enqueue order; each at most once
				seen := map[int]int{}
				lastMain, lastSecond := 0, 10
				for _, v := range delivered {
					seen[v]++
					switch {
					case v >= 1 && v <= 3:
						if v <= lastMain {
							fail += fmt.Sprintf("ORDER%v ", delivered)
						}
						lastMain = v
					case v >= 11 && v <= 12:
						if v <= lastSecond {
							fail += fmt.Sprintf("ORDER%v ", delivered)
						}
						lastSecond = v
					case v == 99:
						fail += "DELIVERED-EVENT-ENQUEUED-AFTER-CLOSE "
					}
				}
				for v, n := range seen {
					if n > 1 {
						fail += fmt.Sprintf("DUPLICATE(%d) ", v)
					}
				}
				if mode != "close-in-handler" {
					for ev := range accepted {
						if seen[ev] == 0 && (graceful || dead == "") {
							// after an abrupt close undelivered events may still be drained by the running drainer; by the
							// end of the execution (all goroutines drained) every accepted event has been delivered
							fail += fmt.Sprintf("LOST(%d of %v) ", ev, delivered)
						}
					}
				}
				if graceful && mode != "close-in-handler" && deliveredAtCloseReturn != len(delivered) {
					fail += "DELIVERY-AFTER-GRACEFUL-CLOSE "
				}
				if mode == "reenter" && seen[1] == 1 && seen[50] == 0 && !closeCalled {
					fail += "REENTRANT-EVENT-LOST "
				}

				return fmt.Sprint(delivered, " atClose=", deliveredAtCloseReturn), fail
			}
		},
	}
}

// c11agentClose: the closing clause on a whole agent. A slow connection-state handler, state changes made on
// the loop, and Close / GracefulClose in every timing (also Close called by the handler itself): once
// GracefulClose has returned no handler is running and none is invoked any more.
func init() {
	for _, mode := range []string{"close-vs-graceful", "close-in-handler-vs-graceful", "graceful-vs-graceful"} {
		csScenarios["agent-"+mode] = func() zzmc.Scenario { return c11agentClose(mode) }
	}
}

func c11agentClose(mode string) zzmc.Scenario {
	return zzmc.Scenario{
		Name:     "agent-" + mode,
		Focus:    []string{"agent_handlers.go"},
		MaxSteps: 4000,
		Setup: func(s *zzmc.Sched) func(string) (string, string) {
			a, err := NewAgentWithOptions(WithNet(vNet{}), WithMulticastDNSMode(MulticastDNSModeDisabled), WithNetworkTypes([]NetworkType{NetworkTypeUDP4}),
				WithCandidateTypes([]CandidateType{CandidateTypeHost}), WithLocalCredentials(vUfragA, vPwdA), WithLoggerFactory(nopFactory{}))
			if err != nil {
				panic(err)
			}
			fail := ""
			inHandler, gracefulReturned, atReturn := 0, 0, -1
			var delivered []ConnectionState
			_ = a.OnConnectionStateChange(func(cs ConnectionState) {
				inHandler++
				if inHandler > 1 {
					fail += "OVERLAP "
				}
				if gracefulReturned > 0 {
					fail += "INVOKED-AFTER-GRACEFUL-CLOSE-RETURNED "
				}
				zzmc.HarnessPoint("handler.body")
				delivered = append(delivered, cs)
				if mode == "close-in-handler-vs-graceful" && len(delivered) == 1 {
					_ = a.Close()
					zzmc.HarnessPoint("handler.after-close")
				}
				inHandler--
			})
			s.Go("E", func() {
				for _, st := range []ConnectionState{ConnectionStateChecking, ConnectionStateConnected} {
					_ = a.loop.Run(a.loop, func(context.Context) { a.updateConnectionState(st) })
				}
			})
			graceful := func() {
				if err := a.GracefulClose(); err != nil {
					fail += "GRACEFULCLOSE-" + err.Error() + " "
				}
				gracefulReturned++
				if atReturn < 0 {
					atReturn = len(delivered)
				}
				if inHandler != 0 {
					fail += "HANDLER-RUNNING-WHEN-GRACEFUL-CLOSE-RETURNED "
				}
			}
			switch mode {
			case "close-vs-graceful":
				s.Go("K1", func() { _ = a.Close() })
			case "graceful-vs-graceful":
				s.Go("K1", graceful)
			}
			s.Go("K2", graceful)

			return func(dead string) (string, string) {
				if dead != "" {
					_ = a.Close()
				}
				if atReturn >= 0 && atReturn != len(delivered) {
					fail += fmt.Sprintf("DELIVERY-AFTER-GRACEFUL-CLOSE-RETURNED(%d then %v) ", atReturn, delivered)
				}
				for i := 1; i < len(delivered); i++ {
					if delivered[i] == delivered[i-1] {
						fail += fmt.Sprintf("DUPLICATE%v ", delivered)
					}
				}

				return fmt.Sprint(delivered, " atReturn=", atReturn), fail
			}
		},
	}
}

func checkC11(c *runCtx) {
	c.assume("sequential consistency between scheduling points (every mutex, WaitGroup, channel operation and go statement of agent_handlers.go; handlers contain one more point)",
		"the task loop is the only enqueuer in the agent, so one enqueuer thread is the faithful driver; a second enqueuer is explored as an extra",
		"the gathering half of the statement (single nil candidate, ufrag stamping, cancelled cycles) is checked on the gathering model (fake transport.Net) and by the Restart race scenarios")
	dl := c01deadline(c, 240, 1200)
	b := 4
	if !c.quick() {
		b = 5
	}
	for _, stream := range []string{"state", "candidate", "pair"} {
		for _, mode := range []string{"graceful", "abrupt", "reenter", "close-in-handler"} {
			csExplore(c, "notifier-"+stream+"-"+mode, b, dl, nil)
		}
	}
	csExplore(c, "notifier-state-two-enqueuers", b-1, dl, nil)
	for _, mode := range []string{"close-vs-graceful", "close-in-handler-vs-graceful", "graceful-vs-graceful"} {
		csExplore(c, "agent-"+mode, b-1, dl, nil)
	}
	// gathering half: one nil candidate per completed cycle, after all of its candidates, each stamped with the
	// cycle's ufrag; none from a cycle cancelled by Restart (oracles of the gathering model, see c09_test.go)
	p := newVTPool()
	defer p.close()
	depth := 6
	if !c.quick() {
		depth = 8
	}
	two := []gIface{{Name: "eth0", Up: true, Addrs: []string{"10.0.0.1"}}, {Name: "eth1", Up: true, Addrs: []string{"192.168.1.2"}}}
	vtSearch(c, p, vtSpec{Name: "candidate stream of gathering cycles: host", Model: "gather", Finish: true, Cfg: gatherCfg{Ifaces: two, NetTypes: []string{"udp4"}, CandTypes: []string{"host"}, Depth: depth}, Deadline: dl})
	vtSearch(c, p, vtSpec{Name: "candidate stream of gathering cycles: host + srflx", Model: "gather", Finish: true, Cfg: gatherCfg{Ifaces: gIfacesBasic, NetTypes: []string{"udp4"}, CandTypes: []string{"host", "srflx"}, URLs: []string{"stun:198.51.100.1:3478"}, Depth: depth}, Deadline: dl})
	csExplore(c, "addcandidate-after-cancel", 3, dl, func(zzmc.Failure) string { return "S6" })
	csExplore(c, "gather-vs-restart", b, dl, nil)
	csExplore(c, "gather-vs-gather", b, dl, nil) // two accepted calls: one cycle's candidates, then one end marker
	_ = time.Second
}
