package ice

// C05 — role conflicts resolve by tie-breaker into opposite roles.
// BE table (one real agent, every order relation of the two tie-breakers, both roles) + VT (two real
// agents started in the same role, all message orders within the bounds).

import (
	"encoding/json"
	"fmt"
	"strings"
	"testing"
	"testing/synctest"
	"time"
)

func init() {
	registerCheck("C05", checkC05)
	vReplayers["C05"] = vtReplay
}

func inBubble(t *testing.T, f func()) {
	t.Helper()
	synctest.Test(t, func(*testing.T) { f() })
}

type c05case struct {
	Role     string `json:"role"`
	TieX     uint64 `json:"tie_x"`
	TieP     uint64 `json:"tie_p"`
	SameRole bool   `json:"same_role"`
	UC       bool   `json:"use_candidate"`
	Phase    string `json:"phase"`            // "fresh" | "pending" (X has checks outstanding) | "connected"
	Src      string `json:"src,omitempty"`    // "" the signalled remote candidate | "unknown" an address that is not (yet) a remote candidate
	Layout   string `json:"layout,omitempty"` // "" pion's own attribute order | "role-last" role attribute right before MESSAGE-INTEGRITY | "role-last-nofp" the same without FINGERPRINT
}

func c05run(t *testing.T, cs c05case) (problems []string, outcome string) {
	inBubble(t, func() {
		raw, _ := json.Marshal(soloCfg{Role: cs.Role, Locals: 1, Remotes: 1, Tie: cs.TieX})
		sw := newSoloWorld(raw)
		defer sw.Close()
		a := sw.x.agent
		a.tieBreaker = cs.TieX // set directly so that 0 is expressible
		switch cs.Phase {
		case "pending":
			sw.tick()
		case "connected":
			sw.establish()
		case "disconnected": // connected, then silent beyond the disconnected timeout
			sw.establish()
			time.Sleep(defaultDisconnectedTimeout + 100*time.Millisecond)
			sw.tick()
			sw.purge()
			if a.connectionState != ConnectionStateDisconnected {
				panic("c05: the agent did not become Disconnected: " + a.connectionState.String())
			}
		}
		src := sw.remotes[0].addr.String()
		if cs.Src == "unknown" {
			src = "10.0.1.77:2077"
		}
		before := sw.agentState()
		selBefore := a.getSelectedPair()
		nSent := len(sw.sentLog)
		wasControlling := a.isControlling.Load()
		req := sw.peerRequest(peerReqOpts{sameRole: cs.SameRole, tie: cs.TieP, tieSet: true, uc: cs.UC, nom: -1, prio: 0,
			roleLast: cs.Layout != "", noFP: cs.Layout == "role-last-nofp"})
		sw.inject(sw.x.socks[0], src, req)
		emitted := sw.sentLog[nSent:]
		var classes []string
		for _, d := range emitted {
			si := describeSTUN(d.data)
			classes = append(classes, fmt.Sprintf("%s/%d", si.class, si.code))
		}
		nowControlling := a.isControlling.Load()
		outcome = fmt.Sprintf("kept=%v emitted=%v", wasControlling == nowControlling, classes)
		if !cs.SameRole {
			// an ordinary check from the opposite role: answered with a success response, role unchanged
			ok := false
			for _, cl := range classes {
				ok = ok || cl == "success response/0"
			}
			if !ok || wasControlling != nowControlling {
				problems = append(problems, fmt.Sprintf("opposite-role request treated as a conflict: role kept=%v emitted=%v", wasControlling == nowControlling, classes))
			}

			return
		}
		// RFC 8445 7.3.1.1
		var keep bool
		if wasControlling {
			keep = cs.TieX >= cs.TieP
		} else {
			keep = cs.TieX < cs.TieP
		}
		for _, d := range emitted {
			si := describeSTUN(d.data)
			if si.class == "success response" {
				problems = append(problems, "a role-conflicting request was answered with a success response (treated as a connectivity check)")
			}
			if si.class == "request" {
				problems = append(problems, "a role-conflicting request triggered a check: "+d.describe())
			}
		}
		if keep {
			if wasControlling != nowControlling {
				problems = append(problems, "receiver should keep its role and answer 487, but it switched")
			}
			n487 := 0
			for _, d := range emitted {
				si := describeSTUN(d.data)
				if si.class == "error response" && si.code == 487 {
					n487++
					if d.dst != src || d.srcSock != sw.x.socks[0].name {
						problems = append(problems, "487 sent to the wrong place: "+d.describe())
					}
					if describeSTUN(req).tx != si.tx {
						problems = append(problems, "487 does not echo the transaction id")
					}
					if !stunSignedWith(d.data, a.localPwd) {
						problems = append(problems, "487 is not signed with the local password")
					}
				}
			}
			if n487 != 1 {
				problems = append(problems, fmt.Sprintf("receiver should keep its role and answer 487 exactly once, emitted %v", classes))
			}
		} else {
			if wasControlling == nowControlling {
				problems = append(problems, "receiver should switch role, but kept it")
			}
			if len(emitted) != 0 {
				problems = append(problems, fmt.Sprintf("receiver should switch silently, emitted %v", classes))
			}
		}
		// not a connectivity check, not a nomination: nothing else may change
		if sel := a.getSelectedPair(); sel != selBefore {
			problems = append(problems, "selection changed on a role-conflicting request")
		}
		after := sw.agentState()
		strip := func(s string) string { // the role flag itself may change
			s = strings.Replace(s, "ctl=true", "ctl=?", 1)
			s = strings.Replace(s, "ctl=false", "ctl=?", 1)
			// the selector object (with its private nominatedPair / lastNomination) belongs to the role
			var keep []string
			for _, f := range strings.Split(s, " ") {
				if !strings.HasPrefix(f, "nomp=") && !strings.HasPrefix(f, "lastnom=") {
					keep = append(keep, f)
				}
			}

			return strings.Join(keep, " ")
		}
		// (a request from an address that is not a remote candidate yet may leave a peer-reflexive candidate and its pair behind)
		if cs.Src != "unknown" && strip(before) != strip(after) {
			problems = append(problems, fmt.Sprintf("agent state changed beyond the role: before %q after %q", before, after))
		}
		// the role attribute of the next request reflects the outcome
		{
			n := len(sw.sentLog)
			if cs.Phase == "connected" || cs.Phase == "disconnected" {
				// the next request of a connected agent is the keepalive check on the selected pair
				time.Sleep(defaultKeepaliveInterval + 100*time.Millisecond)
			}
			sw.tick()
			nreq := 0
			for _, d := range sw.sentLog[n:] {
				si := describeSTUN(d.data)
				if si.class == "request" {
					nreq++
					want := "controlled"
					if nowControlling {
						want = "controlling"
					}
					if si.role != want {
						problems = append(problems, fmt.Sprintf("next request carries role %s, agent is %s", si.role, want))
					}
					if si.tie != cs.TieX {
						problems = append(problems, fmt.Sprintf("next request carries tie-breaker %#x, agent has %#x", si.tie, cs.TieX))
					}
				}
			}
			if nreq == 0 {
				problems = append(problems, "HARNESS: the agent sent no request after the conflict, so the role attribute of its next request was not observed")
			}
		}
	})

	return problems, outcome
}

func checkC05(c *runCtx) {
	c.assume("the code depends on the two 64-bit tie-breakers only through tieX >= tieP and the 8-byte big-endian codec; the 10x10 boundary grid realises every order relation (equal, adjacent, extremes, sign bit) and two byte-asymmetric values")
	B := []uint64{0, 1, 1<<32 - 1, 1 << 32, 0x0102030405060708, 0x0807060504030201, 1<<63 - 1, 1 << 63, 1<<64 - 2, 1<<64 - 1}
	outcomes := newDistinct()
	cases := 0
	t0table := time.Now()
	for _, role := range []string{"controlling", "controlled"} {
		for _, phase := range []string{"fresh", "pending", "connected", "disconnected"} {
			for _, tx := range B {
				for _, tp := range B {
					if c.quick() && phase != "fresh" && !(tx == tp || tx+1 == tp || tp+1 == tx || tx == B[0] || tp == B[len(B)-1]) {
						continue
					}
					for _, uc := range []bool{false, true} {
						for _, layout := range []string{"", "role-last", "role-last-nofp"} {
							if layout != "" && !(tx == tp || tx+1 == tp || tp+1 == tx) {
								continue // the attribute order does not interact with the comparison: the adjacent and equal pairs suffice
							}
							for _, src := range []string{"", "unknown"} {
								if src != "" && (layout != "" || !(tx == tp || tx+1 == tp || tp+1 == tx)) {
									continue // the source does not interact with the comparison either
								}
								cs := c05case{Role: role, TieX: tx, TieP: tp, SameRole: true, UC: uc, Phase: phase, Layout: layout, Src: src}
								probs, out := c05run(c.t, cs)
								cases++
								rel := "<"
								if tx == tp {
									rel = "="
								} else if tx > tp {
									rel = ">"
								}
								outcomes.note(role + "/" + phase + "/" + rel + "/" + out)
								for _, p := range probs {
									c.violation("", fmt.Sprintf("role=%s phase=%s tieX=%#x tieP=%#x uc=%v layout=%q src=%q: %s", role, phase, tx, tp, uc, layout, src, p), cs)
								}
							}
						}
					}
				}
			}
			cs := c05case{Role: role, TieX: B[3], TieP: B[4], SameRole: false, Phase: phase}
			probs, out := c05run(c.t, cs)
			cases++
			outcomes.note(role + "/" + phase + "/opposite/" + out)
			for _, p := range probs {
				c.violation("", fmt.Sprintf("role=%s phase=%s opposite-role request: %s", role, phase, p), cs)
			}
		}
	}
	c.set("table_wall_s", time.Since(t0table).Seconds())
	c.set("table_cases", cases)
	c.set("table_distinct_outcomes", outcomes.count())
	c.sample(map[string]any{"part": "table", "case": c05case{Role: "controlling", TieX: B[4], TieP: B[5], SameRole: true, Phase: "pending"}, "outcomes": outcomes.top(6)})

	// ---- VT: two real agents started in the same role
	p := newVTPool()
	defer p.close()
	dl := c01deadline(c, 240, 1200)
	h1, h2 := []string{"host"}, []string{"host", "host"}
	type sp struct {
		name string
		cfg  pairCfg
	}
	var specs []sp
	for _, role := range []string{"controlling", "controlled"} {
		for _, ties := range [][2]uint64{{5, 9}, {9, 5}, {1<<64 - 1, 1<<64 - 2}} {
			specs = append(specs, sp{fmt.Sprintf("1x1 both %s, tieA=%d tieB=%d, full BFS", role, ties[0], ties[1]),
				pairCfg{KindsA: h1, KindsB: h1, RoleA: role, RoleB: role, TieA: ties[0], TieB: ties[1], Ticks: 2, Drops: 1, Dups: 1, FairMax: 6}})
		}
		specs = append(specs, sp{fmt.Sprintf("1x1 both %s, trickled candidates (the conflicting check may come from a not yet signalled address), full BFS under reordering", role),
			pairCfg{KindsA: h1, KindsB: h1, RoleA: role, RoleB: role, TieA: 5, TieB: 9, Trickle: true, Ticks: 2, FairMax: 6}})
		specs = append(specs, sp{fmt.Sprintf("2x1 both %s, D<=2", role),
			pairCfg{KindsA: h2, KindsB: h1, RoleA: role, RoleB: role, TieA: 7, TieB: 3, Ticks: 3, Drops: 2, Dups: 2, Dev: 2, FairMax: 6}})
		if !c.quick() {
			specs = append(specs, sp{fmt.Sprintf("2x2 both %s, D<=2", role),
				pairCfg{KindsA: h2, KindsB: h2, RoleA: role, RoleB: role, TieA: 3, TieB: 7, Ticks: 3, Drops: 2, Dups: 2, Dev: 2, FairMax: 6}},
				sp{fmt.Sprintf("1x1 both %s, 3 ticks, full BFS", role),
					pairCfg{KindsA: h1, KindsB: h1, RoleA: role, RoleB: role, TieA: 3, TieB: 7, Ticks: 3, Drops: 1, Dups: 1, FairMax: 6}})
		}
	}
	for _, s := range specs {
		vtSearch(c, p, vtSpec{Name: s.name, Model: "pair", Cfg: s.cfg, Finish: true, Deadline: dl})
	}
}
