package ice

// C02 — unauthenticated or mismatched STUN never influences the agent.
// A grammar of injected messages (enumerated completely) × a set of session states reached with real
// events; differential oracle on everything observable.

import (
	"context"
	"encoding/json"
	"fmt"
	"net"
	"sort"
	"strings"
	"testing/synctest"
	"time"

	"github.com/pion/stun/v3"
)

func init() { registerCheck("C02", checkC02) }

type c02msg struct {
	Class  string `json:"class"`  // request | indication | success | error
	Method string `json:"method"` // binding | allocate
	User   string `json:"user"`   // ok | swapped | Lx | xR | L | LRextra | prefix | absent | prevgen
	MI     string `json:"mi"`     // ok | otherpwd | prevgen | absent | corrupt | early
	FP     string `json:"fp"`     // ok | absent | wrong
	Tx     string `json:"tx"`     // pending-here | pending-other | never | prevgen
	Src    string `json:"src"`    // remote0 | remote1 | unknown | mapped0
	Attrs  string `json:"attrs"`  // "+"-separated subset of uc, role, samerole, prio, nom in this order
	To     int    `json:"to"`
}

type c02case struct {
	State string `json:"state"`
	Msg   c02msg `json:"msg"`
}

type c02snap struct {
	pairs    string
	selected string
	pending  string
	remotes  string
	locals   string
	role     string
	conn     string
	lastRecv map[string]int64
	sent     int
	cb       [3]int
}

func c02snapshot(sw *soloWorld) c02snap {
	a := sw.x.agent
	sn := c02snap{lastRecv: map[string]int64{}}
	_ = a.loop.Run(a.loop, func(context.Context) {
		var ps []string
		for _, p := range a.checklist {
			ps = append(ps, fmt.Sprintf("[%d %s>%s %s nominated=%v deferred=%v reqs=%d]", p.id, p.Local.addr(), p.Remote.addr(), p.state, p.nominated, p.nominateOnBindingSuccess, p.bindingRequestCount))
		}
		sort.Strings(ps)
		sn.pairs = strings.Join(ps, "")
		if sp := a.getSelectedPair(); sp != nil {
			sn.selected = sp.Local.addr().String() + ">" + sp.Remote.addr().String()
		}
		var pend []string
		for _, pr := range a.pendingBindingRequests {
			pend = append(pend, fmt.Sprintf("%x>%s", pr.transactionID[:4], pr.destination))
		}
		sort.Strings(pend)
		sn.pending = strings.Join(pend, ",")
		var rs, ls []string
		for _, set := range a.remoteCandidates {
			for _, c := range set {
				rs = append(rs, c.Type().String()+"/"+c.addr().String())
				sn.lastRecv[c.addr().String()] = c.LastReceived().UnixNano()
			}
		}
		for _, set := range a.localCandidates {
			for _, c := range set {
				ls = append(ls, c.Type().String()+"/"+c.addr().String())
			}
		}
		sort.Strings(rs)
		sort.Strings(ls)
		sn.remotes, sn.locals = strings.Join(rs, ","), strings.Join(ls, ",")
		sn.role = a.role().String()
		sn.conn = a.connectionState.String()
	})
	sn.sent = len(sw.sentLog)
	sn.cb = [3]int{len(sw.x.states), len(sw.x.selLog), len(sw.x.candLog)}

	return sn
}

// c02world builds the session state named st; it returns the world plus the previous generation's
// credentials and a transaction of the previous generation (for the restart state).
type c02world struct {
	*soloWorld
	oldLocalUfrag, oldLocalPwd, oldPeerUfrag, oldPeerPwd string
	oldTx                                                []byte // a request X sent in the previous generation
	expired                                              bool   // every request X has sent is older than maxBindingRequestTimeout
}

func c02build(st string) *c02world {
	role := "controlling"
	if strings.Contains(st, "controlled") {
		role = "controlled"
	}
	cfg := soloCfg{Role: role, Locals: 2, Remotes: 2, Lite: strings.Contains(st, "lite")}
	raw, _ := json.Marshal(cfg)
	w := &c02world{soloWorld: newSoloWorld(raw)}
	sw := w.soloWorld
	switch {
	case strings.HasPrefix(st, "fresh"):
	case strings.HasPrefix(st, "pending"):
		sw.tick()
		if strings.Contains(st, "expired") {
			// the requests are older than the transaction lifetime and nothing has been sent since: by the harness's own
			// clock none of them is outstanding any more, whatever the agent still keeps in its table
			time.Sleep(maxBindingRequestTimeout + 100*time.Millisecond)
			w.expired = true
		}
	case strings.HasPrefix(st, "valid"):
		// one pair valid but not nominated / not selected
		sw.tick()
		for _, d := range sw.pendingOut() {
			if d.srcSock == "a0" && d.dst == sw.remotes[0].addr.String() {
				sw.removeInflight(d.seq)
				sw.inject(sw.x.socks[0], d.dst, sw.peerResponse(d.data, stun.ClassSuccessResponse, "", d.src))
			}
		}
	case strings.HasPrefix(st, "connected"), strings.HasPrefix(st, "lite"):
		sw.establish()
		if !cfg.Lite {
			sw.tick() // keepalive request outstanding towards the selected remote
		}
		if strings.Contains(st, "expired") {
			time.Sleep(maxBindingRequestTimeout + 100*time.Millisecond)
			w.expired = true
		}
	case strings.HasPrefix(st, "restarted"):
		sw.tick()
		sw.establish()
		// a request of the ending generation that is still outstanding inside the agent when Restart is called
		sw.tick()
		for _, d := range sw.pendingOut() {
			for _, pr := range sw.x.agent.pendingBindingRequests {
				if w.oldTx == nil && pr.transactionID == describeSTUN(d.data).tx {
					w.oldTx = d.data
				}
			}
		}
		if w.oldTx == nil {
			for _, d := range sw.pendingOut() {
				w.oldTx = d.data
			}
		}
		w.oldLocalUfrag, w.oldLocalPwd, w.oldPeerUfrag, w.oldPeerPwd = sw.x.agent.localUfrag, sw.x.agent.localPwd, sw.peerUfrag, sw.peerPwd
		sw.x.gen++
		if err := sw.x.agent.Restart("ufragAAAAg1", "pwdAAAAAAAAAAAAAAAAAAAAAAAg1"); err != nil {
			panic(err)
		}
		if !strings.Contains(st, "samepeer") { // a peer is not obliged to change its credentials
			sw.peerUfrag, sw.peerPwd = "ufragBBBBg1", "pwdBBBBBBBBBBBBBBBBBBBBBBBg1"
		}
		sw.inflight = nil
		sw.x.socks, sw.x.cands = nil, nil
		for i := 0; i < cfg.Locals; i++ {
			sw.addLocal(i)
		}
		if err := sw.x.agent.SetRemoteCredentials(sw.peerUfrag, sw.peerPwd); err != nil {
			panic(err)
		}
		for j := range sw.remotes {
			sw.signalRemote(j)
		}
		sw.tick()
	default:
		panic("unknown state " + st)
	}
	sw.purge()
	// let the clock move so that a refreshed liveness timestamp is visible
	time.Sleep(time.Second)
	synctest.Wait()

	return w
}

func c02parts(attrs string) map[string]bool {
	m := map[string]bool{}
	for _, p := range strings.Split(attrs, "+") {
		if p != "" {
			m[p] = true
		}
	}

	return m
}

// c02make builds the datagram; it also reports how the statement classifies it.
func c02make(w *c02world, m c02msg) (data []byte, src string, valid bool, pendingSameSource bool) {
	sw := w.soloWorld
	a := sw.x.agent
	switch m.Src {
	case "remote0":
		src = sw.remotes[0].addr.String()
	case "remote1":
		src = sw.remotes[1].addr.String()
	case "mapped0":
		src = fmt.Sprintf("[::ffff:%s]:%d", sw.remotes[0].addr.IP.String(), sw.remotes[0].addr.Port)
	case "near0port": // the known remote's IP, another port (same high byte)
		src = fmt.Sprintf("%s:%d", sw.remotes[0].addr.IP.String(), sw.remotes[0].addr.Port^0x80)
	case "near0ip": // the known remote's port on another IP
		ip := sw.remotes[0].addr.IP.To4()
		src = fmt.Sprintf("%d.%d.%d.%d:%d", ip[0], ip[1], ip[2]^0x40, ip[3], sw.remotes[0].addr.Port)
	default:
		src = "10.9.9.9:999"
	}
	var class stun.MessageClass
	switch m.Class {
	case "request":
		class = stun.ClassRequest
	case "indication":
		class = stun.ClassIndication
	case "success":
		class = stun.ClassSuccessResponse
	default:
		class = stun.ClassErrorResponse
	}
	method := stun.MethodBinding
	if m.Method == "allocate" {
		method = stun.MethodAllocate
	}
	msg := new(stun.Message)
	// transaction id
	msg.TransactionID = sw.nextTx()
	if m.Class == "success" || m.Class == "error" {
		srcCanon := src
		if m.Src == "mapped0" {
			srcCanon = sw.remotes[0].addr.String()
		}
		for _, d := range sw.pendingOut() {
			here := d.dst == srcCanon && d.srcSock == sw.x.socks[m.To].name
			if (m.Tx == "pending-here" && here) || (m.Tx == "pending-other" && d.dst != srcCanon) {
				msg.TransactionID = describeSTUN(d.data).tx
				// is it still outstanding inside the agent?
				for _, pr := range a.pendingBindingRequests {
					if pr.transactionID == msg.TransactionID && m.Tx == "pending-here" && !w.expired {
						pendingSameSource = true
					}
				}

				break
			}
		}
		if m.Tx == "prevgen" && w.oldTx != nil {
			msg.TransactionID = describeSTUN(w.oldTx).tx
		}
	}
	setters := []stun.Setter{stun.NewType(method, class)}
	lu, ru := a.localUfrag, sw.peerUfrag
	user := ""
	switch m.User {
	case "ok":
		user = lu + ":" + ru
	case "swapped":
		user = ru + ":" + lu
	case "Lx":
		user = lu + ":zzzz"
	case "xR":
		user = "zzzz:" + ru
	case "L":
		user = lu
	case "LRextra":
		user = lu + ":" + ru + ":extra"
	case "prefix":
		user = lu + ":" + ru + "x"
	case "prevgen":
		user = w.oldLocalUfrag + ":" + w.oldPeerUfrag
	}
	if m.User != "absent" {
		setters = append(setters, stun.NewUsername(user))
	}
	at := c02parts(m.Attrs)
	if at["uc"] {
		setters = append(setters, UseCandidate())
	}
	if at["role"] || at["samerole"] {
		peerControlling := !a.isControlling.Load()
		if at["samerole"] {
			peerControlling = !peerControlling
		}
		if peerControlling {
			setters = append(setters, AttrControlling(7))
		} else {
			setters = append(setters, AttrControlled(7))
		}
	}
	if at["prio"] {
		setters = append(setters, PriorityAttr(1845501695))
	}
	if at["nom"] {
		setters = append(setters, NominationSetter{Value: 5, AttrType: a.nominationAttribute})
	}
	if class == stun.ClassSuccessResponse {
		h, p, _ := net.SplitHostPort(sw.x.socks[m.To].addr.String())
		var pi int
		fmt.Sscan(p, &pi) //nolint:errcheck
		setters = append(setters, &stun.XORMappedAddress{IP: net.ParseIP(h), Port: pi})
	}
	if class == stun.ClassErrorResponse {
		setters = append(setters, stun.ErrorCodeAttribute{Code: stun.CodeRoleConflict, Reason: []byte("Role Conflict")})
	}
	// the right key for this class
	right, other := a.localPwd, sw.peerPwd
	prev := w.oldLocalPwd
	if class == stun.ClassSuccessResponse || class == stun.ClassErrorResponse {
		right, other = sw.peerPwd, a.localPwd
		prev = w.oldPeerPwd
	}
	late := []stun.Setter{}
	switch m.MI {
	case "ok", "corrupt":
		setters = append(setters, stun.NewShortTermIntegrity(right))
	case "otherpwd":
		setters = append(setters, stun.NewShortTermIntegrity(other))
	case "prevgen":
		setters = append(setters, stun.NewShortTermIntegrity(prev))
	case "early":
		setters = append(setters, stun.NewShortTermIntegrity(right))
		late = append(late, stun.NewSoftware("appended after the integrity was computed"))
	}
	setters = append(setters, late...)
	if m.FP == "ok" || m.FP == "wrong" {
		setters = append(setters, stun.Fingerprint)
	}
	if err := msg.Build(setters...); err != nil {
		panic(err)
	}
	data = append([]byte{}, msg.Raw...)
	if m.MI == "corrupt" {
		// flip one bit inside the MESSAGE-INTEGRITY value
		raw, err := msg.Get(stun.AttrMessageIntegrity)
		if err == nil {
			if i := strings.Index(string(data), string(raw)); i >= 0 {
				data[i+3] ^= 0x10
			}
		}
	}
	if m.FP == "wrong" {
		data[len(data)-1] ^= 0x01
	}
	// classification by the statement
	miOK := m.MI == "ok"
	if m.MI == "prevgen" && prev == right {
		miOK = true // no previous generation in this state: same key
	}
	if m.MI == "early" {
		miOK = false // integrity does not cover the appended attribute (checked on the raw message up to MI: see below)
		chk := &stun.Message{Raw: append([]byte{}, data...)}
		if chk.Decode() == nil && stun.MessageIntegrity([]byte(right)).Check(chk) == nil {
			miOK = true // RFC 5389: attributes after MESSAGE-INTEGRITY are ignored by the check; the library accepts it
		}
	}
	switch m.Class {
	case "request":
		userOK := m.User == "ok" || (m.User == "prevgen" && w.oldLocalUfrag == lu && w.oldPeerUfrag == ru)
		valid = method == stun.MethodBinding && userOK && miOK
	case "success":
		valid = method == stun.MethodBinding && miOK
	}

	return data, src, valid, pendingSameSource
}

func c02diff(a, b c02snap) []string {
	var d []string
	if a.pairs != b.pairs {
		d = append(d, fmt.Sprintf("pairs %s -> %s", a.pairs, b.pairs))
	}
	if a.selected != b.selected {
		d = append(d, fmt.Sprintf("selection %q -> %q", a.selected, b.selected))
	}
	if a.pending != b.pending {
		d = append(d, fmt.Sprintf("outstanding transactions %s -> %s", a.pending, b.pending))
	}
	if a.remotes != b.remotes {
		d = append(d, fmt.Sprintf("remote candidates %s -> %s", a.remotes, b.remotes))
	}
	if a.locals != b.locals {
		d = append(d, "local candidates changed")
	}
	if a.role != b.role || a.conn != b.conn {
		d = append(d, fmt.Sprintf("role/state %s/%s -> %s/%s", a.role, a.conn, b.role, b.conn))
	}
	if a.sent != b.sent {
		d = append(d, fmt.Sprintf("%d datagram(s) emitted", b.sent-a.sent))
	}
	if a.cb != b.cb {
		d = append(d, fmt.Sprintf("callbacks fired %v -> %v", a.cb, b.cb))
	}
	for k, v := range b.lastRecv {
		if a.lastRecv[k] != v {
			d = append(d, "liveness timestamp of "+k+" refreshed")
		}
	}

	return d
}

func c02messages(quick bool) []c02msg {
	var out []c02msg
	users := []string{"ok", "swapped", "Lx", "xR", "L", "LRextra", "prefix", "absent", "prevgen"}
	mis := []string{"ok", "otherpwd", "prevgen", "absent", "corrupt", "early"}
	fps := []string{"ok", "absent", "wrong"}
	srcs := []string{"remote0", "remote1", "unknown", "mapped0", "near0port", "near0ip"}
	attrs := []string{"", "uc", "role", "prio", "nom", "uc+role+prio", "uc+prio", "role+prio", "uc+nom+role+prio", "samerole+prio", "uc+samerole"}
	if quick {
		attrs = []string{"", "uc+role+prio", "role+prio", "uc+nom+role+prio", "samerole+prio"}
		fps = []string{"ok", "absent"}
	}
	for _, method := range []string{"binding", "allocate"} {
		for _, src := range srcs {
			for to := 0; to < 2; to++ {
				if quick && to == 1 && src != "remote0" {
					continue
				}
				// requests and indications
				for _, class := range []string{"request", "indication"} {
					for _, u := range users {
						for _, mi := range mis {
							for _, fp := range fps {
								for _, at := range attrs {
									if method == "allocate" && (at != "uc+role+prio" || fp != "ok") {
										continue
									}
									if class == "indication" && !(at == "" || at == "uc+role+prio") {
										continue
									}
									out = append(out, c02msg{class, method, u, mi, fp, "never", src, at, to})
								}
							}
						}
					}
				}
				// responses
				for _, class := range []string{"success", "error"} {
					for _, tx := range []string{"pending-here", "pending-other", "never", "prevgen"} {
						for _, mi := range mis {
							for _, fp := range fps {
								if method == "allocate" && fp != "ok" {
									continue
								}
								out = append(out, c02msg{class, method, "absent", mi, fp, tx, src, "", to})
							}
						}
					}
				}
			}
		}
	}

	return out
}

func checkC02(c *runCtx) {
	c.assume("FINGERPRINT is varied but not part of the statement's validity rule (the agent does not require it)",
		"a source given in IPv4-mapped form is the same address as its IPv4 form",
		"attributes placed after MESSAGE-INTEGRITY are outside its coverage (RFC 5389): such a message counts as signed iff the library's check accepts it")
	states := []string{"fresh-controlling", "fresh-controlled", "pending-controlling", "pending-controlled", "pending-expired-controlling", "pending-expired-controlled", "connected-expired-controlling", "valid-controlling", "connected-controlling", "connected-controlled", "restarted-controlling", "restarted-controlled", "restarted-samepeer-controlling", "restarted-samepeer-controlled", "lite-controlled"}
	msgs := c02messages(c.quick())
	var cases []c02case
	for _, st := range states {
		for _, m := range msgs {
			if (m.User == "prevgen" || m.MI == "prevgen" || m.Tx == "prevgen") && !strings.HasPrefix(st, "restarted") {
				continue
			}
			cases = append(cases, c02case{st, m})
		}
	}
	c.set("session_states", len(states))
	c.set("message_specs", len(msgs))
	classes := runSharded(c, "c02", func(shard, shards int, sink *shardSink) {
		for i := shard; i < len(cases); i += shards {
			cs := cases[i]
			var problem, class string
			inBubble(c.t, func() {
				w := c02build(cs.State)
				defer w.Close()
				data, src, valid, pendingSame := c02make(w, cs.Msg)
				before := c02snapshot(w.soloWorld)
				w.inject(w.x.socks[cs.Msg.To], src, data)
				after := c02snapshot(w.soloWorld)
				diff := c02diff(before, after)
				known := cs.Msg.Src != "unknown" && !strings.HasPrefix(cs.Msg.Src, "near")
				switch {
				case cs.Msg.Class == "request" && valid:
					class = "valid request (unconstrained here)"

					return
				case cs.Msg.Class == "success" && valid:
					class = "signed success response"
					if pendingSame && known {
						class += ", outstanding transaction to that source"

						return
					}
					// signed but not matching: pair state / selection / candidates / callbacks / emissions must not change;
					// the liveness timestamp of a known source and the transaction table may
					var bad []string
					for _, d := range diff {
						if strings.HasPrefix(d, "liveness") && known || strings.HasPrefix(d, "outstanding") {
							continue
						}
						bad = append(bad, d)
					}
					if len(bad) > 0 {
						problem = "signed success response without a matching outstanding transaction changed: " + strings.Join(bad, "; ")
					}
				case cs.Msg.Class == "indication" && cs.Msg.Method == "binding":
					class = "Binding indication"
					var bad []string
					for _, d := range diff {
						if strings.HasPrefix(d, "liveness") && known {
							continue
						}
						bad = append(bad, d)
					}
					if len(bad) > 0 {
						problem = "Binding indication changed: " + strings.Join(bad, "; ")
					}
				default:
					class = "must be dropped: " + cs.Msg.Class + "/" + cs.Msg.Method
					if len(diff) > 0 {
						problem = fmt.Sprintf("%s %s that must be dropped (user=%s integrity=%s tx=%s src=%s) had an effect: %s", cs.Msg.Method, cs.Msg.Class, cs.Msg.User, cs.Msg.MI, cs.Msg.Tx, cs.Msg.Src, strings.Join(diff, "; "))
					}
				}
			})
			sink.add("evaluations", 1)
			sink.note(cs.State + " / " + class)
			if problem != "" {
				sink.violation("", "state "+cs.State+": "+problem, cs)
			}
			if i%5003 == 0 {
				sink.Samples = append(sink.Samples, cs)
			}
		}
	})
	// the transport clause: one peer address used over UDP and TCP, the answer arriving over the other transport
	if probs, n := c02crossTransport(c.t); true {
		c.add("evaluations", n)
		for _, p := range probs {
			c.violation("", "same IP:port over UDP and TCP: "+p, map[string]any{"part": "cross-transport"})
		}
	}
	c.set("distinct_nontrivial", len(classes))
	// model-checking level keys: every injection is one transition on the real code from one of the explored states
	c.set("states", len(states))
	c.set("transitions", c.get("evaluations"))
	c.set("traces_validated_against_impl", c.get("evaluations"))
	var cl []string
	for k, v := range classes {
		cl = append(cl, fmt.Sprintf("%s x%d", k, v))
	}
	sort.Strings(cl)
	c.set("classes", cl)
	c.set("rule", "every message of the grammar (class x method x USERNAME form x MESSAGE-INTEGRITY form x FINGERPRINT x transaction id x source x attribute subset x target socket) is injected into every session state (fresh world per injection); the agent's complete observable state before and after is compared according to the statement's classification; distinct = distinct (state, classification) pairs")
}
