package ice

// C04 — connection state follows the documented lifecycle and liveness timing.
// Engine VT with the virtual clock: one real Agent against a scripted peer; the clock only moves through
// explicit advance events that land the measured durations on every region boundary of the thresholds.

import (
	"encoding/json"
	"fmt"
	"os"
	"strings"
	"testing/synctest"
	"time"

	"github.com/pion/ice/v4/internal/zzmc"
	"github.com/pion/stun/v3"
)

func init() {
	registerCheck("C04", checkC04)
	vReplayers["C04"] = vtReplay
	vtModels["life"] = func(cfg json.RawMessage) vtModel { return newLifeModel(cfg) }
}

type lifeModel struct {
	*soloWorld
	depth      int
	dT, fT     time.Duration // effective thresholds (as documented for the configuration)
	checkDL    time.Duration // initial checking deadline (0 = disabled)
	lastHeard  map[string]time.Time
	chkStart   time.Time // first tick of the current checking phase (zero = not started)
	chkPhase   int       // increases with every (re)entry into Checking
	chkTicked  int       // chkPhase at which chkStart was taken
	restartEvt bool      // the event being applied is a restart
	closed     bool
	cbSeen     int
	prevState  ConnectionState
	lastTick   string // agent state right after the most recent tick (what the tick closure remembers)
	t0         time.Time
}

func lifeThresholds(cfg soloCfg) (dT, fT, chk time.Duration) {
	ms := func(v int, def time.Duration) time.Duration {
		switch {
		case v < 0:
			return 0
		case v == 0:
			return def
		default:
			return time.Duration(v) * time.Millisecond
		}
	}
	dT = ms(cfg.DiscMs, 5*time.Second)
	fT = ms(cfg.FailMs, 25*time.Second)
	chkD := dT
	if cfg.Lite && cfg.DiscMs == 0 {
		dT = 10 * time.Second // documented lite default (RFC 7675 consent expiry)
		chkD = 5 * time.Second
	}
	if fT != 0 {
		chk = chkD + fT
	}

	return dT, fT, chk
}

func newLifeModel(raw json.RawMessage) *lifeModel {
	m := &lifeModel{soloWorld: newSoloWorld(raw), lastHeard: map[string]time.Time{}}
	m.dT, m.fT, m.checkDL = lifeThresholds(m.cfg)
	a := m.x.agent
	if a.disconnectedTimeout != m.dT || a.failedTimeout != m.fT {
		m.problem("", "configured thresholds differ from the documented ones: disconnected %v (want %v) failed %v (want %v)", a.disconnectedTimeout, m.dT, a.failedTimeout, m.fT)
	}
	m.t0 = time.Now()
	m.chkPhase = 1
	m.prevState = a.connectionState
	prev := m.onDeliver
	m.onDeliver = func(dst *vsock, src string, data []byte) {
		prev(dst, src, data)
		if dst.name[0] == 'a' && m.qualifies(src, data) {
			m.lastHeard[src] = time.Now()
		}
	}

	return m
}

// qualifies: traffic that refreshes the liveness timestamp of a known remote address, per the statement:
// authenticated requests and responses, Binding indications and application data from a known remote.
func (m *lifeModel) qualifies(src string, data []byte) bool {
	known := false
	for _, r := range m.remotes {
		known = known || r.addr.String() == src
	}
	if !known {
		return false
	}
	si := describeSTUN(data)
	if !si.isSTUN {
		return !stun.IsMessage(data)
	}
	a := m.x.agent
	switch si.class {
	case "request":
		return si.user == a.localUfrag+":"+m.peerUfrag && stunSignedWith(data, a.localPwd) && si.role != a.role().String()
	case "success response":
		return stunSignedWith(data, m.peerPwd)
	case "indication":
		return true
	}

	return false
}

func (m *lifeModel) selectedRemote() string {
	if sp := m.x.agent.getSelectedPair(); sp != nil {
		return sp.Remote.addr().String()
	}

	return ""
}

func (m *lifeModel) silence() time.Duration {
	r := m.selectedRemote()
	if r == "" {
		return -1
	}

	return time.Since(m.lastHeard[r])
}

// targets are the durations at which the measured quantity crosses into the next region.
func lifeTargets(ths ...time.Duration) []time.Duration {
	var out []time.Duration
	seen := map[time.Duration]bool{}
	add := func(d time.Duration) {
		if d > 0 && !seen[d] {
			seen[d] = true
			out = append(out, d)
		}
	}
	for _, t := range ths {
		if t > 0 {
			add(t / 2)
			add(t)
			add(t + time.Nanosecond)
		}
	}

	return out
}

func (m *lifeModel) Enabled() []string {
	if m.closed || (m.cfg.Depth > 0 && m.depth >= m.cfg.Depth) {
		return nil
	}
	a := m.x.agent
	evs := []string{"tick"}
	// clock: land the silence (or the checking age) on each boundary above the current value
	if sil := m.silence(); sil >= 0 {
		total := time.Duration(0)
		if m.fT != 0 {
			total = m.dT + m.fT
		}
		for _, t := range lifeTargets(m.dT, total) {
			if t > sil {
				evs = append(evs, fmt.Sprintf("silence:%d", int64(t)))
			}
		}
	} else if a.connectionState == ConnectionStateChecking && m.chkTicked == m.chkPhase && m.checkDL > 0 {
		age := time.Since(m.chkStart)
		for _, t := range lifeTargets(m.checkDL) {
			if t > age {
				evs = append(evs, fmt.Sprintf("age:%d", int64(t)))
			}
		}
	}
	if a.connectionState != ConnectionStateFailed {
		for j := range m.remotes {
			evs = append(evs, fmt.Sprintf("rx:req:%d", j), fmt.Sprintf("rx:ind:%d", j), fmt.Sprintf("rx:data:%d", j))
		}
		if len(m.pendingOut()) > 0 {
			evs = append(evs, "rx:resp")
		}
	}
	if a.getSelectedPair() == nil && a.connectionState == ConnectionStateChecking {
		evs = append(evs, "establish")
	}
	evs = append(evs, "restart", "close")

	return evs
}

func (m *lifeModel) advance(d time.Duration) {
	time.Sleep(d)
	synctest.Wait()
}

func (m *lifeModel) Apply(ev string) {
	m.depth++
	a := m.x.agent
	before := a.connectionState
	silBefore := m.silence()
	m.restartEvt = false
	f := strings.Split(ev, ":")
	switch f[0] {
	case "tick":
		m.oracleTick()
	case "silence", "age":
		var t int64
		fmt.Sscan(f[1], &t) //nolint:errcheck
		cur := silBefore
		if f[0] == "age" {
			cur = time.Since(m.chkStart)
		}
		if d := time.Duration(t) - cur; d > 0 {
			m.advance(d)
		}
	case "rx":
		var j int
		if len(f) > 2 {
			fmt.Sscan(f[2], &j) //nolint:errcheck
		}
		to := m.x.socks[0]
		switch f[1] {
		case "req":
			m.inject(to, m.remotes[j].addr.String(), m.peerRequest(peerReqOpts{nom: -1, prio: 0}))
		case "ind":
			m.inject(to, m.remotes[j].addr.String(), m.peerRequest(peerReqOpts{nom: -1, prio: -1, noRole: true, useClass: true, method: stun.MethodBinding, class: stun.ClassIndication}))
		case "data":
			m.inject(to, m.remotes[j].addr.String(), []byte("application data"))
		case "resp":
			p := m.pendingOut()
			d := p[len(p)-1]
			m.removeInflight(d.seq)
			var sock *vsock
			for _, s := range m.x.socks {
				if s.name == d.srcSock {
					sock = s
				}
			}
			m.inject(sock, d.dst, m.peerResponse(d.data, stun.ClassSuccessResponse, "", d.src))
		}
	case "establish":
		// minimal honest handshake on (local 0, remote 0); X's own ticks go through the tick oracle
		l0, r0 := m.x.socks[0], m.remotes[0]
		answer := func() {
			for _, d := range m.pendingOut() {
				if d.srcSock == l0.name && d.dst == r0.addr.String() {
					m.removeInflight(d.seq)
					m.inject(l0, r0.addr.String(), m.peerResponse(d.data, stun.ClassSuccessResponse, "", d.src))
				}
			}
		}
		if !a.isControlling.Load() {
			m.inject(l0, r0.addr.String(), m.peerRequest(peerReqOpts{uc: true, nom: -1, prio: 0}))
			answer()
		}
		for i := 0; i < 3 && a.getSelectedPair() == nil && a.connectionState == ConnectionStateChecking && !(a.lite && !a.isControlling.Load()); i++ {
			m.oracleTick()
			answer()
		}
	case "restart":
		m.restartEvt = true
		m.x.gen++
		if err := a.Restart(fmt.Sprintf("ufragAAAAg%d", m.x.gen), fmt.Sprintf("pwdAAAAAAAAAAAAAAAAAAAAAAAg%d", m.x.gen)); err != nil {
			m.problem("", "Restart: %v", err)
		}
		m.inflight = nil
		m.x.socks, m.x.cands = nil, nil
		for i := 0; i < m.cfg.Locals; i++ {
			m.addLocal(i)
		}
		_ = a.SetRemoteCredentials(m.peerUfrag, m.peerPwd)
		for j := range m.remotes {
			m.signalRemote(j)
		}
		if a.connectionState == ConnectionStateChecking && before != ConnectionStateChecking {
			m.chkPhase++
		}
	case "close":
		if err := a.Close(); err != nil {
			m.problem("", "Close: %v", err)
		}
		synctest.Wait()
		m.closed = true
	default:
		panic("unknown event " + ev)
	}
	m.purge()
	m.checkCallbacks(ev)
	m.checkQuiescent()
	m.prevState = a.connectionState
}

// oracleTick issues one tick and evaluates oracle (3) on it.
func (m *lifeModel) oracleTick() {
	a := m.x.agent
	before := a.connectionState
	hadSel := a.getSelectedPair() != nil
	sil := m.silence()
	if before == ConnectionStateChecking && m.chkTicked != m.chkPhase {
		m.chkStart, m.chkTicked = time.Now(), m.chkPhase
	}
	age := time.Since(m.chkStart)
	m.tick()
	m.lastTick = a.connectionState.String()
	m.checkTick(before, hadSel, sil, age)
}

// checkTick: oracle (3) — the state after a tick is a function of the silence / the checking age.
func (m *lifeModel) checkTick(before ConnectionState, hadSel bool, sil, age time.Duration) {
	a := m.x.agent
	got := a.connectionState
	switch {
	case before == ConnectionStateFailed || before == ConnectionStateClosed || before == ConnectionStateNew:
		if got != before {
			m.problem("", "a tick in state %s changed the state to %s", before, got)
		}
	case hadSel:
		disconnected := m.dT != 0 && sil > m.dT
		total := time.Duration(0)
		if m.fT != 0 {
			total = m.dT + m.fT
		}
		failed := total != 0 && sil > total
		want := ConnectionStateConnected
		switch {
		case failed && disconnected && before != ConnectionStateDisconnected:
			want = ConnectionStateDisconnected // Disconnected is reported before Failed
		case failed:
			want = ConnectionStateFailed
		case disconnected:
			want = ConnectionStateDisconnected
		}
		if got != want {
			m.problem("", "after a tick with the selected remote silent for %v (disconnected timeout %v, failed timeout %v, previous state %s) the state is %s, want %s", sil, m.dT, m.fT, before, got, want)
		}
	case before == ConnectionStateChecking:
		want := ConnectionStateChecking
		if m.checkDL != 0 && age > m.checkDL {
			want = ConnectionStateFailed
		}
		if got != want {
			m.problem("", "after a tick with no selected pair, %v into the checking phase (deadline %v), the state is %s, want %s", age, m.checkDL, got, want)
		}
	}
}

// checkCallbacks: oracle (1) — the delivered sequence is a path in the documented graph.
func (m *lifeModel) checkCallbacks(ev string) {
	a := m.x.agent
	st := m.x.states
	for i := m.cbSeen; i < len(st); i++ {
		var from ConnectionState = ConnectionStateNew
		if i > 0 {
			from = st[i-1]
		}
		to := st[i]
		ok := false
		switch {
		case from == to:
			m.problem("", "connection-state callback repeated %s (sequence %v)", to, st)

			continue
		case to == ConnectionStateClosed:
			ok = from != ConnectionStateClosed
		case from == ConnectionStateClosed:
			ok = false
		case from == ConnectionStateNew:
			ok = to == ConnectionStateChecking
		case from == ConnectionStateChecking:
			ok = to == ConnectionStateConnected || to == ConnectionStateFailed
		case from == ConnectionStateConnected:
			ok = to == ConnectionStateDisconnected || (to == ConnectionStateFailed && m.dT == 0) || (to == ConnectionStateChecking && m.restartEvt)
		case from == ConnectionStateDisconnected:
			ok = to == ConnectionStateConnected || to == ConnectionStateFailed || (to == ConnectionStateChecking && m.restartEvt)
		case from == ConnectionStateFailed:
			ok = to == ConnectionStateChecking && m.restartEvt
		}
		if !ok {
			m.problem("", "illegal lifecycle edge %s -> %s during event %q (sequence %v)", from, to, ev, st)
		}
	}
	m.cbSeen = len(st)
	if len(st) > 0 && st[len(st)-1] != a.connectionState && !(m.closed && st[len(st)-1] == ConnectionStateClosed) {
		m.problem("", "last notified state %s differs from the agent's state %s", st[len(st)-1], a.connectionState)
	}
	if m.closed && (len(st) == 0 || st[len(st)-1] != ConnectionStateClosed) {
		m.problem("", "after Close the last notified state is not Closed (sequence %v)", st)
	}
}

// checkQuiescent: oracle (2).
func (m *lifeModel) checkQuiescent() {
	a := m.x.agent
	if m.closed {
		return
	}
	nL, nR := 0, 0
	for _, s := range a.localCandidates {
		nL += len(s)
	}
	for _, s := range a.remoteCandidates {
		nR += len(s)
	}
	switch a.connectionState {
	case ConnectionStateConnected, ConnectionStateDisconnected:
		if a.getSelectedPair() == nil {
			m.problem("", "state %s without a selected pair", a.connectionState)
		}
	case ConnectionStateFailed:
		if a.getSelectedPair() != nil || len(a.checklist) != 0 || nL != 0 || nR != 0 || len(a.pendingBindingRequests) != 0 {
			m.problem("", "state Failed but not released: selected=%v pairs=%d locals=%d remotes=%d outstanding=%d", a.getSelectedPair() != nil, len(a.checklist), nL, nR, len(a.pendingBindingRequests))
		}
		for _, s := range m.x.socks {
			if !s.isClosed() {
				m.problem("", "state Failed but socket %s is still open", s.name)
			}
		}
	}
}

func lifeRegion(v time.Duration, ths ...time.Duration) string {
	if v < 0 {
		return "-"
	}
	r := 0
	for _, t := range ths {
		if t > 0 {
			if v >= t/2 {
				r++
			}
			if v >= t {
				r++
			}
			if v > t {
				r++
			}
		}
	}

	return fmt.Sprint(r)
}

func (m *lifeModel) Key() (string, []int) {
	total := time.Duration(0)
	if m.fT != 0 {
		total = m.dT + m.fT
	}
	age := time.Duration(-1)
	if m.x.agent.connectionState == ConnectionStateChecking && m.chkTicked == m.chkPhase {
		age = time.Since(m.chkStart)
	}
	k := m.agentState()
	if m.closed {
		k = "closed"
	}
	// outstanding requests matter only through "is there one to answer"
	// the per-tick closure of the agent keeps private state (the state it saw last, the start of the checking phase)
	// that no accessor shows: the harness's own record of what determines it is part of the key, otherwise states
	// that only differ there would be merged and a defect in that bookkeeping would be invisible
	stale := time.Duration(-1)
	if !m.chkStart.IsZero() {
		stale = time.Since(m.chkStart)
	}
	k += fmt.Sprintf(" lasttick=%s stale=%s", m.lastTick, lifeRegion(stale, m.checkDL))
	k += fmt.Sprintf(" sil=%s age=%s out=%v ticked=%v last=%v", lifeRegion(m.silence(), m.dT, total), lifeRegion(age, m.checkDL), len(m.pendingOut()) > 0, m.chkTicked == m.chkPhase, m.prevState)
	// the implementation's own notion of the silence (what the next tick will read): states must not be merged on the
	// harness's record alone, or a refresh that the agent failed to make would disappear in an already visited state
	if sp := m.x.agent.getSelectedPair(); sp != nil {
		k += " implsil=" + lifeRegion(time.Since(sp.Remote.LastReceived()), m.dT, total)
	}

	return k, []int{m.depth}
}

func (m *lifeModel) Problems() []vtProblem {
	p := m.problems
	m.problems = nil

	return p
}

func (m *lifeModel) Finish() []vtProblem { return nil }

func (m *lifeModel) Close() {
	if !m.closed {
		m.soloWorld.Close()
	}
}

func checkC04cs(c *runCtx, dl time.Time) {
	if os.Getenv("VERIF_VARIANT") != "instr" {
		c.capHit("built without instrumentation: the handler-time scenario was not run")

		return
	}
	b := 2
	if !c.quick() {
		b = 3
	}
	csExplore(c, "failed-callback-sees-released-agent", b, dl, nil)
}

func checkC04(c *runCtx) {
	c.assume("ticks are issued by the harness (hook H1); the interval arithmetic of the real timer loop is not part of this check",
		"the code reads the clock only through comparisons with the configured thresholds, so advancing the clock to T/2, T and T+1ns for every threshold T covers every region and both sides of every boundary",
		"liveness-refreshing traffic = authenticated requests/responses, Binding indications and application data from a known remote address")
	p := newVTPool()
	defer p.close()
	dl := c01deadline(c, 240, 1500)
	depth := 7
	if !c.quick() {
		depth = 9
	}
	type tc struct {
		name         string
		disc, failMs int
	}
	timeouts := []tc{{"default timeouts", 0, 0}, {"disconnected disabled, failed 25s", -1, 0}, {"disconnected 5s, failed disabled", 0, -1}}
	if !c.quick() {
		timeouts = append(timeouts, tc{"both disabled", -1, -1}, tc{"disconnected 2s, failed 3s", 2000, 3000}, tc{"disconnected 3s, failed 2s", 3000, 2000})
	}
	type sp struct {
		name string
		cfg  soloCfg
	}
	var specs []sp
	for _, t := range timeouts {
		for _, role := range []string{"controlling", "controlled"} {
			specs = append(specs, sp{fmt.Sprintf("full %s, %s", role, t.name), soloCfg{Role: role, Locals: 1, Remotes: 2, DiscMs: t.disc, FailMs: t.failMs, Depth: depth}})
		}
		specs = append(specs, sp{fmt.Sprintf("lite controlled, %s", t.name), soloCfg{Role: "controlled", Lite: true, Locals: 1, Remotes: 2, DiscMs: t.disc, FailMs: t.failMs, Depth: depth}})
		// the other public entry: NewAgent(&AgentConfig{...}) with pointer-valued timeouts (nil and an explicit zero differ)
		specs = append(specs, sp{fmt.Sprintf("lite controlled built from an AgentConfig, %s", t.name), soloCfg{Role: "controlled", Lite: true, Locals: 1, Remotes: 2, DiscMs: t.disc, FailMs: t.failMs, Depth: depth - 1, ViaConfig: true}})
	}
	specs = append(specs, sp{"full controlling built from an AgentConfig, disconnected disabled, failed 25s", soloCfg{Role: "controlling", Locals: 1, Remotes: 2, DiscMs: -1, Depth: depth - 1, ViaConfig: true}})
	if only := os.Getenv("VERIF_ONLY"); only != "" {
		var f []sp
		for _, s := range specs {
			if strings.Contains(s.name, only) {
				f = append(f, s)
			}
		}
		specs = f
	}
	for _, s := range specs {
		vtSearch(c, p, vtSpec{Name: s.name, Model: "life", Cfg: s.cfg, Deadline: dl})
	}
	if os.Getenv("VERIF_ONLY") == "" {
		checkC04cs(c, dl)
	}
}

// ---------------------------------------------------------------- CS: what a handler sees at the moment it is told "Failed"

// c04failedCallback: "Failed only after selection, pairs and candidates were released" is about the moment the
// application is told, and the application is told on the notifier's goroutine while the loop goes on. A connected
// agent falls silent; the tick that declares Failed runs on the loop, the handler on the notifier, under the
// controlled scheduler (scheduling points in the notifier, the task loop and the candidates' close path).
func init() {
	csScenarios["failed-callback-sees-released-agent"] = c04failedCallback
}

func c04failedCallback() zzmc.Scenario {
	return zzmc.Scenario{
		Name:     "failed-callback-sees-released-agent",
		Focus:    []string{"agent_handlers.go", "taskloop.go", "candidate_base.go"},
		MaxSteps: 6000,
		TimeStep: 500 * time.Millisecond,
		MaxAdv:   400,
		Setup: func(s *zzmc.Sched) func(string) (string, string) {
			raw, _ := json.Marshal(soloCfg{Role: "controlling", Locals: 1, Remotes: 1, DiscMs: 1000, FailMs: 1000})
			sw := newSoloWorld(raw)
			sw.onSend, sw.onDeliver = nil, nil
			sw.establish()
			a := sw.x.agent
			fail := ""
			var seen []ConnectionState
			_ = a.OnConnectionStateChange(func(cs ConnectionState) {
				seen = append(seen, cs)
				// (Connected / Disconnected cannot be judged here: the handler runs later than the transition, and by then
				// the agent may legitimately have failed and released the pair; "released" is monotone, so Failed can)
				if cs != ConnectionStateFailed {
					return
				}
				// lock-free accessors: what the application can read from inside the handler without waiting for the loop
				if sp, _ := a.GetSelectedCandidatePair(); sp != nil {
					fail += "FAILED-NOTIFIED-WHILE-A-PAIR-IS-STILL-SELECTED "
				}
				if !sw.x.socks[0].isClosed() {
					fail += "FAILED-NOTIFIED-WHILE-THE-CANDIDATE-SOCKET-IS-STILL-OPEN "
				}
			})
			s.Go("TICK", func() {
				time.Sleep(3 * time.Second) // silence beyond disconnected + failed
				sw.x.contact()
				zzmc.HarnessPoint("after-tick")
				sw.x.contact()
			})

			return func(dead string) (string, string) {
				got := false
				for _, cs := range seen {
					got = got || cs == ConnectionStateFailed
				}
				if !got && dead == "" {
					fail += fmt.Sprintf("FAILED-NEVER-NOTIFIED(%v) ", seen)
				}
				_ = a.Close()

				return fmt.Sprint(seen), fail
			}
		},
	}
}
