package ice

// C09 — every socket the agent opens is closed when its candidate goes away. Engine VT: BFS over
// event sequences of a gathering agent on the fake Net; the tally of opens and effective closes is the oracle.
// The same model carries the cycle-control oracles of C18 and the nil-candidate / ufrag oracles of C11.

import (
	"errors"
	"context"
	"encoding/json"
	"fmt"
	"io"
	"net"
	"os"
	"sort"
	"strings"
	"sync"
	"testing/synctest"
	"time"

	"github.com/pion/ice/v4/internal/zzmc"
)

var _ = io.EOF

func init() {
	registerCheck("C09", checkC09)
	vReplayers["C09"] = vtReplay
	vtModels["gather"] = func(cfg json.RawMessage) vtModel { return newGatherModel(cfg) }
}

type gatherCycle struct {
	gen       int
	started   bool
	cancelled bool // a Restart / Close came before it completed
	completed bool
	nils      int
}

type gatherModel struct {
	*gatherWorld
	depth       int
	cycles      []*gatherCycle
	restarts    int
	failed      bool
	lastCandLen int
	stunServed  map[string]bool
	strict      bool // C08: no wind-down wait after Close, the bubble's end is the census
}

func newGatherModel(raw json.RawMessage) *gatherModel {
	return &gatherModel{gatherWorld: newGatherWorld(raw), stunServed: map[string]bool{}}
}

func (m *gatherModel) curCycle() *gatherCycle {
	if len(m.cycles) == 0 {
		return nil
	}

	return m.cycles[len(m.cycles)-1]
}

func (m *gatherModel) pendingTurns() []int {
	var out []int
	for i, t := range m.turns {
		if len(t.reply) == 0 && !m.turnAnswered(i) {
			out = append(out, i)
		}
	}

	return out
}

// failKeys: the bind addresses whose next listen can be made to fail (one per kind of gatherer).
func (m *gatherModel) failKeys() []string {
	var ks []string
	for _, t := range m.cfg.CandTypes {
		switch t {
		case "host":
			if m.cfg.UDPMux == "" && m.cfg.TCPMux == "" {
				ks = append(ks, "u"+m.cfg.Ifaces[0].Addrs[0])
			}
		case "srflx":
			ks = append(ks, "u0.0.0.0")
		case "relay":
			if strings.Contains(strings.Join(m.cfg.URLs, " "), "transport=tcp") {
				ks = append(ks, "tcp")
			} else {
				ks = append(ks, "p0.0.0.0")
			}
		}
	}

	return ks
}

func (m *gatherModel) turnAnswered(i int) bool { return m.stunServed[fmt.Sprintf("turn%d", i)] }

func (m *gatherModel) Enabled() []string {
	if m.closed || (m.cfg.Depth > 0 && m.depth >= m.cfg.Depth) {
		return nil
	}
	evs := []string{"gather"}
	for _, d := range m.pendingSTUN() {
		evs = append(evs, "stunReply:"+d.srcSock)
	}
	if len(m.pendingSTUN()) > 0 || len(m.pendingTurns()) > 0 {
		evs = append(evs, "timeout")
	}
	for _, i := range m.pendingTurns() {
		evs = append(evs, fmt.Sprintf("turnOK:%d", i), fmt.Sprintf("turnFail:%d", i))
	}
	for _, k := range m.failKeys() {
		evs = append(evs, "listenFail:"+k)
	}
	evs = append(evs, "restart", "close")
	if m.cfg.Start && !m.failed {
		evs = append(evs, "fail")
	}

	return evs
}

func (m *gatherModel) Apply(ev string) {
	m.depth++
	a := m.a
	f := strings.Split(ev, ":")
	switch f[0] {
	case "gather":
		before, _ := a.GetGatheringState()
		err := a.GatherCandidates()
		synctest.Wait()
		// C18 cycle control: refused once the state has left New
		if before != GatheringStateNew && err == nil {
			m.problem("", "GatherCandidates was accepted although the gathering state was %s", before)
		}
		if before == GatheringStateNew && err != nil && !m.failed {
			m.problem("", "GatherCandidates was refused (%v) although the gathering state was New", err)
		}
		if err == nil {
			m.cycles = append(m.cycles, &gatherCycle{gen: m.fn.gen, started: true})
		}
	case "stunReply":
		for _, d := range m.pendingSTUN() {
			if d.srcSock == f[1] {
				m.stunReply(d)

				break
			}
		}
	case "timeout":
		time.Sleep(10 * time.Second) // beyond the STUN gather timeout and the TURN allocation timeout
		synctest.Wait()
		m.inflight = nil
	case "turnOK", "turnFail":
		var i int
		fmt.Sscan(f[1], &i) //nolint:errcheck
		m.stunServed[fmt.Sprintf("turn%d", i)] = true
		if f[0] == "turnOK" {
			m.turns[i].reply <- "ok"
		} else {
			m.turns[i].reply <- "fail"
		}
		synctest.Wait()
	case "listenFail":
		m.fn.mu.Lock()
		m.fn.failNext[f[1]] = 1
		m.fn.mu.Unlock()
	case "restart":
		if c := m.curCycle(); c != nil && !c.completed {
			c.cancelled = true
		}
		if err := a.Restart("", ""); err != nil {
			m.problem("", "Restart: %v", err)
		}
		m.fn.mu.Lock()
		m.fn.gen++
		m.fn.mu.Unlock()
		m.restarts++
		m.failed = false
		synctest.Wait()
		if st, _ := a.GetGatheringState(); st != GatheringStateNew {
			m.problem("", "after Restart the gathering state is %s, want new", st)
		}
	case "fail":
		if m.contact != nil {
			m.contact()
			time.Sleep(40 * time.Second)
			synctest.Wait()
			m.contact()
			synctest.Wait()
		}
		if a.connectionState == ConnectionStateFailed {
			m.failed = true
			// entering Failed releases every candidate that exists at that moment
			if quiet := len(m.pendingSTUN()) == 0 && len(m.pendingTurns()) == 0; quiet {
				if open := m.openResources(m.fn.gen); len(open) > 0 {
					m.leak("right after entering Failed", open)
				}
			}
		}
	case "close":
		if c := m.curCycle(); c != nil && !c.completed {
			c.cancelled = true
		}
		if err := a.Close(); err != nil && !m.cfg.CloseErr {
			m.problem("", "Close returned %v", err)
		}
		m.closed = true
		synctest.Wait()
		// the generation that was current is released when Close returns ...
		if open := m.openResources(m.fn.gen); len(open) > 0 {
			m.leak("after Close returned", open)
		}
		// ... and so is the gathering cycle that was started last, also when a Restart has superseded it meanwhile: Close
		// waits for it (only a cycle that a later GatherCandidates replaced is left to its own I/O timeouts, S26 under C08)
		if lc := m.curCycle(); lc != nil && lc.gen != m.fn.gen {
			if open := m.openResources(lc.gen); len(open) > 0 {
				m.leak("after Close returned (last gathering cycle, superseded by Restart, no later cycle)", open)
			}
		}
		// ... superseded gatherings once they have wound down (their own I/O timeouts)
		if !m.strict {
			time.Sleep(30 * time.Second)
			synctest.Wait()
			m.inflight = nil
			if open := m.openResources(-1); len(open) > 0 {
				m.leak("after Close returned and every superseded gathering has wound down", open)
			}
		}
	default:
		panic("unknown event " + ev)
	}
	synctest.Wait()
	m.observe(ev)
}

// observe evaluates the oracles at quiescence.
func (m *gatherModel) observe(ev string) {
	a := m.a
	st, _ := a.GetGatheringState()
	cur := m.curCycle()
	// bookkeeping of the candidate stream
	for i := m.lastCandLen; i < len(m.candLog); i++ {
		gen := m.candGen[i]
		var cyc *gatherCycle
		for _, c := range m.cycles {
			if c.gen == gen {
				cyc = c
			}
		}
		if m.candLog[i] == "nil" {
			if cyc == nil {
				m.problem("", "end-of-gathering marker without a gathering cycle")

				continue
			}
			cyc.nils++
			cyc.completed = true
			if cyc.nils > 1 {
				m.problem("", "a gathering cycle emitted the end-of-gathering (nil) candidate %d times", cyc.nils)
			}
			if cyc.cancelled {
				m.problem("S6", "a gathering cycle cancelled by Restart still emitted the end-of-gathering (nil) candidate")
			}

			continue
		}
		// a real candidate: published after its cycle completed? after the cycle was cancelled?
		if cyc != nil && cyc.nils > 0 {
			m.problem("", "candidate %s was published after the end-of-gathering marker of its cycle", m.candLog[i])
		}
		c, err := UnmarshalCandidate(m.candLog[i])
		if err != nil {
			m.problem("", "published candidate does not parse: %v", err)

			continue
		}
		uf, _ := c.GetExtension("ufrag")
		localUfrag, _, _ := a.GetLocalUserCredentials()
		if uf.Value != localUfrag && !m.closed {
			m.problem("", "candidate %s carries ufrag %q, the agent's ufrag is %q", m.candLog[i], uf.Value, localUfrag)
		}
		// classifier S6: a candidate is published after Restart returned whose socket was opened before that Restart
		if s := m.sockOfCandidate(c); s != nil && s.res.gen < gen {
			m.problem("S6", "candidate %s of the gathering cycle cancelled by Restart was published into the new generation", m.candLog[i])
		}
	}
	m.lastCandLen = len(m.candLog)
	// C18: state machine of the gathering state
	if cur != nil && cur.completed && !cur.cancelled && st != GatheringStateComplete && m.fn.gen == cur.gen && !m.closed {
		m.problem("", "the cycle emitted its end-of-gathering marker but the gathering state is %s", st)
	}
	if st == GatheringStateComplete && (cur == nil || !cur.completed) {
		m.problem("", "gathering state is complete but no end-of-gathering marker was delivered")
	}
	// C09: sockets
	quiet := len(m.pendingSTUN()) == 0 && len(m.pendingTurns()) == 0
	if quiet {
		for g := 0; g < m.fn.gen; g++ {
			if open := m.openResources(g); len(open) > 0 {
				m.leak(fmt.Sprintf("after Restart (generation %d has ended and its gathering has wound down)", g), open)
			}
		}
	}
	// every open resource of the current generation belongs to a local candidate or to a gathering still in progress
	if quiet && !m.closed && (cur == nil || cur.completed || st != GatheringStateGathering) {
		owned := map[*gResource]bool{}
		for _, c := range m.localCands() {
			if s := m.sockOfCandidate(c); s != nil {
				owned[s.res] = true
			}
		}
		m.fn.mu.Lock()
		var orphans []string
		for _, r := range m.fn.resources {
			if r.closes == 0 && r.gen == m.fn.gen && r.kind == "udp" && !owned[r] { // TURN sockets are owned through the relay candidate's onClose
				orphans = append(orphans, fmt.Sprintf("%s#%d(%s)", r.kind, r.id, r.tag))
			}
		}
		m.fn.mu.Unlock()
		if len(orphans) > 0 {
			m.leak("with no gathering in progress and no candidate using it", orphans)
		}
	}
	// redundant closes are tolerated; double *effective* close cannot happen on these fakes
	_ = ev
}

// leak reports unreleased resources, attributing them to S1 when they match its classifier.
func (m *gatherModel) leak(when string, open []string) {
	finding := "S1"
	for _, o := range open {
		// classifier S1: the leaked resource was opened by the srflx gatherer (bound to the unspecified address for a STUN
		// server) and the history has restart or close between that socket's request and its reply
		if !strings.HasPrefix(o, "udp#") || !(strings.Contains(o, "0.0.0.0:0") || strings.Contains(o, "[::]:0")) {
			finding = ""
		}
	}
	if m.restarts == 0 && !m.closed {
		finding = ""
	}
	sort.Strings(open)
	m.problem(finding, "resources still open %s: %s", when, strings.Join(open, ", "))
}

func (m *gatherModel) sockOfCandidate(c Candidate) *gSock {
	var base *candidateBase
	switch v := c.(type) {
	case *CandidateHost:
		base = &v.candidateBase
	case *CandidateServerReflexive:
		base = &v.candidateBase
	case *CandidateRelay:
		base = &v.candidateBase
	case *CandidatePeerReflexive:
		base = &v.candidateBase
	}
	if base == nil || base.conn == nil {
		return nil
	}
	if s, ok := base.conn.(*gSock); ok {
		return s
	}

	return nil
}

func (m *gatherModel) Key() (string, []int) {
	a := m.a
	st, _ := a.GetGatheringState()
	var ls []string
	for _, c := range m.localCands() {
		ls = append(ls, fmt.Sprintf("%s/%s/%s", c.Type(), c.NetworkType(), c.Address()))
	}
	sort.Strings(ls)
	m.fn.mu.Lock()
	var rs []string
	for _, r := range m.fn.resources {
		rs = append(rs, fmt.Sprintf("%s:%s:g%d:c%d", r.kind, r.tag, r.gen, min(r.closes, 1)))
	}
	fail := fmt.Sprint(m.fn.failNext)
	m.fn.mu.Unlock()
	sort.Strings(rs)
	var ps []string
	for _, d := range m.pendingSTUN() {
		ps = append(ps, d.srcSock)
	}
	var cs []string
	for _, c := range m.cycles {
		cs = append(cs, fmt.Sprintf("g%d:%v:%v:%d", c.gen, c.cancelled, c.completed, c.nils))
	}
	cand := append([]string{}, m.candLog...)
	sort.Strings(cand)

	return fmt.Sprintf("gs=%s cs=%s closed=%v failed=%v L=%v R=%v stun=%v turns=%v cycles=%v fail=%s cands=%d gen=%d", st, a.connectionState, m.closed, m.failed, ls, rs, ps, m.pendingTurns(), cs, fail, len(cand), m.fn.gen), []int{m.depth}
}

func (m *gatherModel) Problems() []vtProblem {
	p := m.problems
	m.problems = nil

	return p
}

// Finish: the fair completion of a gathering history. Nothing more is answered, the clock runs past every STUN and
// TURN timeout: a cycle that was started and not cancelled by Restart (or ended by Close / Failed) has then run to
// completion — the state is Complete and the cycle has emitted its one end-of-gathering marker.
func (m *gatherModel) Finish() []vtProblem {
	if m.closed || m.failed || m.cfg.NoFairCompletion {
		return nil
	}
	time.Sleep(40 * time.Second)
	settle()
	m.observe("fair completion")
	st, _ := m.a.GetGatheringState()
	cur := m.curCycle()
	if cur != nil && !cur.cancelled && cur.gen == m.fn.gen { // (a Restart after completion ends that cycle's generation)
		if st != GatheringStateComplete {
			m.problem("", "a gathering cycle that nobody cancelled never completes: every request has timed out and the state is %s", st)
		} else if cur.nils != 1 {
			m.problem("", "a gathering cycle that ran to completion emitted %d end-of-gathering markers", cur.nils)
		}
	}

	return m.Problems()
}

var gIfacesBasic = []gIface{ //nolint:gochecknoglobals
	{Name: "eth0", Up: true, Addrs: []string{"10.0.0.1"}},
}

func checkC09(c *runCtx) {
	c.assume("sockets, TCP streams, TURN clients and relay allocations are those of the fake transport.Net / TURN client factory; 'released' = first Close on the resource",
		"a STUN request is answered only when the harness says so; 'timeout' advances the virtual clock beyond the STUN gather timeout and the (fake) TURN allocation timeout",
		"goroutine scheduling inside one event is not explored here (one quiescent outcome per event); ports are assigned per bind address so that the outcome does not depend on it")
	p := newVTPool()
	defer p.close()
	dl := c01deadline(c, 240, 1500)
	depth := 7
	if !c.quick() {
		depth = 9
	}
	two := []gIface{{Name: "eth0", Up: true, Addrs: []string{"10.0.0.1"}}, {Name: "eth1", Up: true, Addrs: []string{"192.168.1.2"}}}
	stunURL, turnURL := "stun:198.51.100.1:3478", "turn:198.51.100.1:3478?transport=udp"
	type sp struct {
		name string
		cfg  gatherCfg
	}
	specs := []sp{
		{"host", gatherCfg{Ifaces: two, NetTypes: []string{"udp4"}, CandTypes: []string{"host"}, Depth: depth}},
		{"srflx", gatherCfg{Ifaces: gIfacesBasic, NetTypes: []string{"udp4"}, CandTypes: []string{"srflx"}, URLs: []string{stunURL}, Depth: depth}},
		{"relay over UDP", gatherCfg{Ifaces: gIfacesBasic, NetTypes: []string{"udp4"}, CandTypes: []string{"relay"}, URLs: []string{turnURL}, Depth: depth}},
		{"relay over UDP, every Close reports an error", gatherCfg{Ifaces: gIfacesBasic, NetTypes: []string{"udp4"}, CandTypes: []string{"host", "relay"}, URLs: []string{turnURL}, Depth: depth - 1, CloseErr: true}},
		{"host via UDPMux", gatherCfg{Ifaces: gIfacesBasic, NetTypes: []string{"udp4"}, CandTypes: []string{"host"}, UDPMux: "10.0.0.1:7000", Depth: depth}},
		{"srflx via UDPMuxSrflx (universal mux)", gatherCfg{Ifaces: gIfacesBasic, NetTypes: []string{"udp4"}, CandTypes: []string{"srflx"}, URLs: []string{stunURL}, UDPMuxSrflx: "10.0.0.1:7002", Depth: depth}},
		{"srflx mapped by a rewrite rule whose externals include a filtered (link-local) one", gatherCfg{Ifaces: []gIface{{Name: "eth0", Up: true, Addrs: []string{"10.0.0.1", "2001:db8::1"}}}, NetTypes: []string{"udp4", "udp6"}, CandTypes: []string{"host", "srflx"},
			Rewrite: []AddressRewriteRule{{External: []string{"203.0.113.5", "203.0.113.6", "2001:db8:e::1", "fe80::1", "2001:db8:e::2"}, AsCandidateType: CandidateTypeServerReflexive}}, Depth: depth - 2}},
		{"relay with externals appended by a rewrite rule (three candidates on one allocation)", gatherCfg{Ifaces: gIfacesBasic, NetTypes: []string{"udp4"}, CandTypes: []string{"relay"}, URLs: []string{turnURL},
			Rewrite: []AddressRewriteRule{{External: []string{"203.0.113.30", "203.0.113.31"}, AsCandidateType: CandidateTypeRelay, Mode: AddressRewriteAppend}}, Depth: depth - 1}},
		{"relay dropped by a replace rule without externals (rule installed directly)", gatherCfg{Ifaces: gIfacesBasic, NetTypes: []string{"udp4"}, CandTypes: []string{"relay"}, URLs: []string{turnURL},
			RewriteRaw: []AddressRewriteRule{{AsCandidateType: CandidateTypeRelay, Mode: AddressRewriteReplace}}, Depth: depth - 1}},
		{"relay over TLS (turns:), the server never answers the handshake", gatherCfg{Ifaces: gIfacesBasic, NetTypes: []string{"udp4", "tcp4"}, CandTypes: []string{"relay"}, URLs: []string{"turns:198.51.100.1:5349?transport=tcp"}, Depth: depth - 1, NoFairCompletion: true}},
		{"host + srflx + relay, started agent (Failed reachable)", gatherCfg{Ifaces: gIfacesBasic, NetTypes: []string{"udp4"}, CandTypes: []string{"host", "srflx", "relay"}, URLs: []string{stunURL, turnURL}, Depth: depth - 1, Start: true}},
	}
	if !c.quick() {
		specs = append(specs,
			sp{"relay over TCP", gatherCfg{Ifaces: gIfacesBasic, NetTypes: []string{"udp4", "tcp4"}, CandTypes: []string{"relay"}, URLs: []string{"turn:198.51.100.1:3478?transport=tcp"}, Depth: depth}},
			sp{"srflx mapped by a rewrite rule (two externals)", gatherCfg{Ifaces: gIfacesBasic, NetTypes: []string{"udp4"}, CandTypes: []string{"host", "srflx"}, Rewrite: []AddressRewriteRule{{External: []string{"203.0.113.5", "203.0.113.6"}, AsCandidateType: CandidateTypeServerReflexive}}, Depth: depth}},
			sp{"duplicate host candidates through a rewrite rule", gatherCfg{Ifaces: two, NetTypes: []string{"udp4"}, CandTypes: []string{"host"}, Rewrite: []AddressRewriteRule{{External: []string{"203.0.113.5"}, AsCandidateType: CandidateTypeHost}}, PortMin: 5000, PortMax: 5000, Depth: depth}},
			sp{"host via TCPMux", gatherCfg{Ifaces: gIfacesBasic, NetTypes: []string{"tcp4"}, CandTypes: []string{"host"}, TCPMux: "10.0.0.1:7001", Depth: depth}},
		)
	}
	if only := os.Getenv("VERIF_ONLY"); only != "" {
		var f []sp
		for _, s := range specs {
			if strings.Contains(s.name, only) {
				f = append(f, s)
			}
		}
		specs = f
	}
	for _, s := range specs {
		vtSearch(c, p, vtSpec{Name: "gathering: " + s.name, Model: "gather", Cfg: s.cfg, Finish: true, Deadline: dl})
	}
	// goroutine scheduling inside one event: gathering racing Restart, and the window between addCandidate's
	// cancellation check and the hand-over to the loop, under the controlled scheduler; the resource census is the oracle
	if os.Getenv("VERIF_VARIANT") == "instr" && os.Getenv("VERIF_ONLY") == "" {
		b := 2
		if !c.quick() {
			b = 3
		}
		csExplore(c, "gather-vs-restart", b+1, dl, nil)
		csExplore(c, "gather-srflx-vs-restart", b, dl, nil)
		csExplore(c, "gather-vs-gather-vs-restart", b, dl, nil)
		csExplore(c, "gather-vs-close", b+1, dl, nil)
		csExplore(c, "gather-srflx-vs-close", b, dl, nil)
		csExplore(c, "addcandidate-after-cancel", 3, dl, func(zzmc.Failure) string { return "S6" })
	}
}

// ---------------------------------------------------------------- CS coarse scenario: gathering vs Restart

func init() {
	csScenarios["gather-vs-restart"] = func() zzmc.Scenario { return gatherVsRestart("host") }
	csScenarios["gather-srflx-vs-restart"] = func() zzmc.Scenario { return gatherVsRestart("srflx") }
}

// gatherVsRestart: the gather goroutine hands its addCandidate / setGatheringState tasks to the loop while
// another goroutine calls Restart. Scheduling points: every operation of taskloop.go (coarse mode).
func gatherVsRestart(kind string) zzmc.Scenario {
	return zzmc.Scenario{
		Name:     "gather-vs-restart",
		Focus:    []string{"taskloop.go"},
		MaxSteps: 3000,
		Setup: func(s *zzmc.Sched) func(string) (string, string) {
			cfg := gatherCfg{Ifaces: gIfacesBasic, NetTypes: []string{"udp4"}, CandTypes: []string{kind}}
			if kind == "srflx" {
				cfg.URLs = []string{"stun:198.51.100.1:3478"}
			}
			raw, _ := json.Marshal(cfg)
			gw := newGatherWorld(raw)
			fail := ""
			restartReturned := false
			publishedAfter := 0
			oldUfrag, _, _ := gw.a.GetLocalUserCredentials()
			_ = gw.a.OnCandidate(func(c Candidate) {
				if c == nil {
					gw.candLog = append(gw.candLog, "nil")
					if restartReturned {
						fail += "NIL-CANDIDATE-OF-CANCELLED-CYCLE-AFTER-RESTART "
					}

					return
				}
				gw.candLog = append(gw.candLog, c.Marshal())
				if restartReturned {
					publishedAfter++
				}
			})
			gatherAfterRestart := false
			if ownershipJudged() {
				zzmc.OwnStart("*ice.Agent", "taskloop.go:", "*ice.CandidatePair", "*ice.candidateBase")
			}
			s.Go("G", func() {
				gatherAfterRestart = restartReturned // then the cycle belongs to the new generation and is legitimate
				if err := gw.a.GatherCandidates(); err != nil {
					fail += "GATHER-REFUSED "
				}
			})
			if kind == "srflx" {
				s.Go("STUN", func() {
					zzmc.HarnessPoint("stun.reply")
					for i := 0; i < 50 && len(gw.pendingSTUN()) == 0; i++ {
						zzmc.HarnessPoint("stun.wait")
					}
					for _, d := range gw.pendingSTUN() {
						req := d
						gw.mu.Lock()
						if i := gw.find(req.seq); i >= 0 {
							gw.inflight = append(gw.inflight[:i:i], gw.inflight[i+1:]...)
						}
						gw.mu.Unlock()
						gw.answerSTUN(req)
					}
				})
			}
			s.Go("R", func() {
				if err := gw.a.Restart("", ""); err != nil {
					fail += "RESTART-FAILED "
				}
				restartReturned = true
			})

			return func(dead string) (string, string) {
				synctest.Wait()
				time.Sleep(10 * time.Second)
				synctest.Wait()
				if reports, _ := zzmc.OwnStop(); len(reports) > 0 {
					fail += strings.Join(reports, "; ") + " "
				}
				_, _, _ = oldUfrag, publishedAfter, gatherAfterRestart
				fail = strings.ReplaceAll(fail, "NIL-CANDIDATE-OF-CANCELLED-CYCLE-AFTER-RESTART ", "")
				st, _ := gw.a.GetGatheringState()
				locals := gw.localCands()
				nils := 0
				for i, c := range gw.candLog {
					if c == "nil" {
						nils++
						if i != len(gw.candLog)-1 {
							fail += "CANDIDATE-PUBLISHED-AFTER-END-OF-GATHERING-MARKER "
						}
					}
				}
				out := fmt.Sprintf("locals=%d published=%d nils=%d state=%s", len(locals), len(gw.candLog), nils, st)
				switch st {
				case GatheringStateNew:
					// Restart came last: nothing of the cycle may live in the new generation. The cycle was either cancelled
					// (no end marker) or had run to completion before the Restart task (then its one marker is legitimate:
					// both are loop tasks, the run is judged by its outcome).
					if len(locals) != 0 {
						fail += fmt.Sprintf("CANDIDATE-OF-CANCELLED-CYCLE-IN-NEW-GENERATION(%d) ", len(locals))
					}
					if nils > 1 {
						fail += fmt.Sprintf("%d-END-OF-GATHERING-MARKERS ", nils)
					}
				case GatheringStateComplete:
					// the completion came last: one marker, and nothing removed what the cycle published (a cancelled cycle
					// that still "completes" after the Restart task would leave the state Complete with its candidates gone)
					if nils != 1 {
						fail += fmt.Sprintf("COMPLETE-CYCLE-WITH-%d-END-MARKERS ", nils)
					}
					if len(locals) != len(gw.candLog)-nils {
						fail += fmt.Sprintf("STATE-COMPLETE-BUT-%d-OF-%d-PUBLISHED-CANDIDATES-ARE-LOCAL ", len(locals), len(gw.candLog)-nils)
					}
				default:
					fail += "GATHERING-NEVER-FINISHED(" + st.String() + ") "
				}
				gw.Close()
				if open := gw.openResources(-1); len(open) > 0 {
					fail += "RESOURCES-LEFT-OPEN:" + strings.Join(open, ",") + " "
				}

				return out, fail
			}
		},
	}
}

// gatherVsClose: GatherCandidates on one goroutine, Close on another. Whatever the order, once Close has returned
// nothing the agent opened is left open, the gatherer has wound down, and (under C10) every access to the agent's
// fields kept to the lock discipline — the teardown included, which runs partly on the closer's goroutine.
func gatherVsClose(kind string) zzmc.Scenario {
	return zzmc.Scenario{
		Name:     "gather-vs-close",
		Focus:    []string{"taskloop.go"},
		MaxSteps: 3000,
		Setup: func(s *zzmc.Sched) func(string) (string, string) {
			cfg := gatherCfg{Ifaces: gIfacesBasic, NetTypes: []string{"udp4"}, CandTypes: []string{kind}}
			if kind == "srflx" {
				cfg.URLs = []string{"stun:198.51.100.1:3478"}
			}
			raw, _ := json.Marshal(cfg)
			gw := newGatherWorld(raw)
			fail := ""
			closeReturned := false
			var gerr error
			t0 := time.Now()
			var closeTook time.Duration
			// (a candidate event may still be delivered after a plain Close has returned: only GracefulClose waits for the
			// handlers, which is C11's subject)
			_ = gw.a.OnCandidate(func(Candidate) {})
			if ownershipJudged() {
				zzmc.OwnStart("*ice.Agent", "taskloop.go:", "*ice.CandidatePair", "*ice.candidateBase")
			}
			s.Go("G", func() { gerr = gw.a.GatherCandidates() })
			s.Go("C", func() {
				if err := gw.a.Close(); err != nil {
					fail += "CLOSE-FAILED "
				}
				closeReturned = true
				closeTook = time.Since(t0)
				gw.closed = true
			})

			return func(dead string) (string, string) {
				synctest.Wait()
				if reports, _ := zzmc.OwnStop(); len(reports) > 0 {
					fail += strings.Join(reports, "; ") + " "
				}
				if dead == "" && !closeReturned {
					fail += "CLOSE-DID-NOT-RETURN "
				}
				if gerr != nil && !errors.Is(gerr, ErrClosed) {
					fail += "GATHER-FAILED-WITH-" + gerr.Error() + " "
				}
				if !closeReturned {
					gw.Close()
				}
				// strict: nothing may outlive Close, not even until a timer fires (the clock has not moved)
				if open := gw.openResources(-1); len(open) > 0 {
					fail += "RESOURCES-LEFT-OPEN-AFTER-CLOSE:" + strings.Join(open, ",") + " "
				}

				// Close waits for the gatherer; a STUN query that was sent into the void ends with its own timeout at the
				// latest (the helper that closes the socket early can lose its select when the gather context is already
				// cancelled as well: a delay, not a hang). "Bounded" is that timeout.
				if closeTook > gw.a.stunGatherTimeout {
					fail += fmt.Sprintf("CLOSE-TOOK-%s-LONGER-THAN-THE-STUN-TIMEOUT ", closeTook)
				}

				return fmt.Sprintf("gather=%v close-took=%s", gerr, closeTook), fail
			}
		},
	}
}

// gatherVsGather: two back-to-back GatherCandidates calls. Whether the second is refused or accepted (it is
// accepted while the first cycle has not yet left New), one cycle's worth of results is published: every
// address once, one end-of-gathering marker, nothing after it.
func init() {
	csScenarios["gather-vs-close"] = func() zzmc.Scenario { return gatherVsClose("host") }
	csScenarios["gather-srflx-vs-close"] = func() zzmc.Scenario {
		sc := gatherVsClose("srflx")
		sc.Name = "gather-srflx-vs-close"
		sc.TimeStep, sc.MaxAdv = time.Second, 30 // the clock may move when nothing else can (an unanswered STUN query ends by timeout)
		// the helper goroutine of the srflx gatherer selects on two contexts that can both be done: the choice is the scheduler's
		sc.Focus = []string{"taskloop.go", "gather.go"}

		return sc
	}
	csScenarios["gather-vs-gather"] = func() zzmc.Scenario { return gatherVsGather(false) }
	csScenarios["gather-vs-gather-vs-restart"] = func() zzmc.Scenario { return gatherVsGather(true) }
}

func gatherVsGather(withRestart bool) zzmc.Scenario {
	return zzmc.Scenario{
		Name:     "gather-vs-gather",
		Focus:    []string{"taskloop.go"},
		MaxSteps: 3000,
		Setup: func(s *zzmc.Sched) func(string) (string, string) {
			raw, _ := json.Marshal(gatherCfg{Ifaces: gIfacesBasic, NetTypes: []string{"udp4"}, CandTypes: []string{"host"}})
			gw := newGatherWorld(raw)
			fail := ""
			_ = gw.a.OnCandidate(func(c Candidate) {
				if c == nil {
					gw.candLog = append(gw.candLog, "nil")

					return
				}
				gw.candLog = append(gw.candLog, c.Address())
			})
			res := map[string]string{}
			if ownershipJudged() {
				zzmc.OwnStart("*ice.Agent", "taskloop.go:", "*ice.CandidatePair", "*ice.candidateBase")
			}
			for _, n := range []string{"G1", "G2"} {
				s.Go(n, func() { r := fmt.Sprint(gw.a.GatherCandidates()); csRec(func() { res[n] = r }) })
			}
			if withRestart {
				s.Go("R", func() { r := fmt.Sprint(gw.a.Restart("", "")); csRec(func() { res["R"] = r }) })
			}

			return func(dead string) (string, string) {
				synctest.Wait()
				time.Sleep(10 * time.Second)
				synctest.Wait()
				if reports, _ := zzmc.OwnStop(); len(reports) > 0 {
					fail += strings.Join(reports, "; ") + " "
				}
				accepted := 0
				for n, r := range res {
					switch {
					case r == "<nil>":
						if n != "R" {
							accepted++
						}
					case n != "R" && r == ErrMultipleGatherAttempted.Error():
					default:
						fail += n + "-RETURNED-" + r + " "
					}
				}
				if accepted == 0 {
					fail += "NO-GATHER-CALL-ACCEPTED "
				}
				st, _ := gw.a.GetGatheringState()
				nils, seen, sinceMarker := 0, map[string]int{}, 0
				for i, c := range gw.candLog {
					if c == "nil" {
						nils++
						sinceMarker = 0
						// with a Restart in play a cycle may run to completion, be restarted, and a second accepted call may
						// gather again: then something follows the first marker legitimately
						if i != len(gw.candLog)-1 && !withRestart {
							fail += "CANDIDATE-PUBLISHED-AFTER-END-OF-GATHERING-MARKER "
						}

						continue
					}
					seen[c]++
					sinceMarker++
				}
				locals := map[string]int{}
				for _, c := range gw.localCands() {
					locals[c.Address()]++
				}
				var fl []string
				for addr, n := range locals {
					if n > 1 {
						fl = append(fl, fmt.Sprintf("TWO-CYCLES-OVERLAPPED:%d-LOCAL-CANDIDATES-FOR-%s ", n, addr))
					}
				}
				if !withRestart {
					for addr, n := range seen {
						if n > 1 {
							fl = append(fl, fmt.Sprintf("TWO-CYCLES-OVERLAPPED:%s-PUBLISHED-%d-TIMES ", addr, n))
						}
					}
					sort.Strings(fl)
					fail += strings.Join(fl, "")
					fl = nil
					if nils != 1 || st != GatheringStateComplete {
						fail += fmt.Sprintf("END-MARKERS=%d-STATE=%s ", nils, st)
					}
				} else {
					// a cycle cancelled by Restart may have published part of its results; every marker needs an accepted call of
					// its own (complete, Restart, gather again = two legitimate markers)
					sort.Strings(fl)
					fail += strings.Join(fl, "")
					if nils > accepted {
						fail += fmt.Sprintf("END-MARKERS=%d-ACCEPTED-CALLS=%d ", nils, accepted)
					}
					switch st {
					case GatheringStateGathering:
						fail += "GATHERING-NEVER-FINISHED "
					case GatheringStateNew:
						if len(locals) != 0 {
							fail += fmt.Sprintf("CANDIDATE-OF-CANCELLED-CYCLE-IN-NEW-GENERATION(%d) ", len(locals))
						}
					case GatheringStateComplete:
						// the completion came last: its marker is the last entry and what it published is still local
						if len(gw.candLog) == 0 || gw.candLog[len(gw.candLog)-1] != "nil" {
							fail += "STATE-COMPLETE-BUT-THE-LAST-EVENT-IS-NOT-THE-END-MARKER "
						}
						// (a cancelled cycle may have published a candidate without a marker before it, so the log alone does not
						// delimit the last cycle; this configuration has exactly one eligible address)
						if len(locals) != 1 {
							fail += fmt.Sprintf("STATE-COMPLETE-WITH-%d-LOCAL-CANDIDATES-INSTEAD-OF-1 ", len(locals))
						}
					}
					_ = sinceMarker
				}
				out := fmt.Sprintf("accepted=%d locals=%d published=%d nils=%d state=%s", accepted, len(locals), len(gw.candLog), nils, st)
				gw.Close()
				if open := gw.openResources(-1); len(open) > 0 {
					fail += "RESOURCES-LEFT-OPEN:" + strings.Join(open, ",") + " "
				}

				return out, fail
			}
		},
	}
}

// ---------------------------------------------------------------- directed scenario for the addCandidate window

type restartingCtx struct {
	context.Context
	once  sync.Once
	agent *Agent
}

// Done is evaluated by taskloop.Run right before its select, i.e. after addCandidate's ctx.Err() check:
// running Restart here places it exactly in the window between the check and the hand-over.
func (r *restartingCtx) Done() <-chan struct{} {
	r.once.Do(func() { _ = r.agent.Restart("", "") })

	return r.Context.Done()
}

func init() {
	csScenarios["addcandidate-after-cancel"] = addCandidateAfterCancel
}

// addCandidateAfterCancel: a gatherer calls addCandidate; Restart cancels the gathering context after the
// context check and before the task is handed to the loop. Which case the select takes is a scheduler choice.
func addCandidateAfterCancel() zzmc.Scenario {
	return zzmc.Scenario{
		Name:     "addcandidate-after-cancel",
		Focus:    []string{"taskloop.go"},
		MaxSteps: 3000,
		Setup: func(s *zzmc.Sched) func(string) (string, string) {
			raw, _ := json.Marshal(gatherCfg{Ifaces: gIfacesBasic, NetTypes: []string{"udp4"}, CandTypes: []string{"host"}})
			gw := newGatherWorld(raw)
			a := gw.a
			inner, cancel := context.WithCancel(context.Background())
			_ = a.loop.Run(a.loop, func(context.Context) {
				a.gatherCandidateCancel = cancel // as GatherCandidates does for the cycle's context
				a.gatheringState = GatheringStateGathering
			})
			ctx := &restartingCtx{Context: inner, agent: a}
			conn, _ := gw.fn.ListenUDP("udp4", &net.UDPAddr{IP: net.ParseIP("10.0.0.1")})
			cand, _ := NewCandidateHost(&CandidateHostConfig{Network: "udp", Address: "10.0.0.1", Port: conn.LocalAddr().(*net.UDPAddr).Port, Component: 1}) //nolint:forcetypeassert
			var addErr error
			returned := false
			s.Go("T", func() {
				addErr = a.addCandidate(ctx, cand, conn)
				returned = true
				if addErr != nil { // what every gatherer does on failure
					_ = cand.close()
					_ = conn.Close()
				}
			})

			return func(dead string) (string, string) {
				synctest.Wait()
				fail := ""
				locals := gw.localCands()
				st, _ := a.GetGatheringState()
				out := fmt.Sprintf("addCandidate=%v locals=%d state=%s", addErr, len(locals), st)
				if !returned {
					fail += "ADDCANDIDATE-DID-NOT-RETURN "
				}
				if len(locals) != 0 {
					// classifier S6: a candidate of the cycle cancelled by Restart was inserted after Restart returned
					fail += fmt.Sprintf("CANDIDATE-OF-CANCELLED-CYCLE-IN-NEW-GENERATION(published %d) ", len(gw.candLog))
				}
				gw.Close()
				if open := gw.openResources(-1); len(open) > 0 {
					fail += "RESOURCES-LEFT-OPEN:" + strings.Join(open, ",") + " "
				}

				return out, fail
			}
		},
	}
}
