package ice

// C14 — ICE-TCP framing preserves packet boundaries (RFC 4571).
// Engine BE: every stream below the bound × every way the transport may answer each
// Read call (all chunkings, injected error), against a reference deframer.

import (
	"os"
	"sync"
	"strings"
	"testing/synctest"
	"testing"
	"bytes"
	"context"
	"encoding/binary"
	"errors"
	"fmt"
	"io"
	"net"
	"net/netip"
	"sync/atomic"
	"time"
)

func init() { registerCheck("C14", checkC14) }

var errC14Injected = errors.New("injected read error")

// ---- reference deframer (deliberately boring)

type c14ref struct {
	packets [][]byte
	end     string // "eof" (clean or truncated: the transport reports EOF), "short"
	shortN  int
	segEnds []int // theoretical end offsets of header/body segments, for the bounded-read assertion
}

func c14reference(stream []byte, bufCap int) c14ref {
	var r c14ref
	pos := 0
	for {
		r.segEnds = append(r.segEnds, pos+2)
		if len(stream)-pos < 2 {
			r.end = "eof"

			return r
		}
		l := int(binary.BigEndian.Uint16(stream[pos:]))
		if l > bufCap {
			r.end, r.shortN = "short", l

			return r
		}
		if l > 0 {
			r.segEnds = append(r.segEnds, pos+2+l)
		}
		if len(stream)-pos-2 < l {
			r.end = "eof"

			return r
		}
		r.packets = append(r.packets, stream[pos+2:pos+2+l])
		pos += 2 + l
	}
}

// ---- scripted transport

type c14conn struct {
	stream   []byte
	pos      int
	answer   func(req, rem int) (n int, err error) // how many bytes this Read returns
	segEnds  []int
	reads    int
	problems []string
	writes   [][]byte
	closed   atomic.Bool
	raddr    net.Addr
}

func (c *c14conn) Read(p []byte) (int, error) {
	c.reads++
	if c.reads > 100000 {
		c.problems = append(c.problems, "unbounded number of reads")

		return 0, errC14Injected
	}
	// bounded-read assertion: the reader may not ask beyond the end of the current header/body
	allowed := -1
	for _, e := range c.segEnds {
		if e > c.pos {
			allowed = e - c.pos

			break
		}
	}
	if allowed >= 0 && len(p) > allowed {
		c.problems = append(c.problems, fmt.Sprintf("read of %d bytes at offset %d crosses the end of the current header/body (%d left)", len(p), c.pos, allowed))
	}
	if allowed < 0 && len(p) > 0 {
		c.problems = append(c.problems, fmt.Sprintf("read of %d bytes at offset %d after the stream should have been abandoned", len(p), c.pos))
	}
	rem := len(c.stream) - c.pos
	if rem == 0 {
		return 0, io.EOF
	}
	if len(p) == 0 {
		return 0, nil
	}
	req := len(p)
	if req > rem {
		req = rem
	}
	n, err := c.answer(req, rem)
	if err != nil {
		return 0, err
	}
	copy(p, c.stream[c.pos:c.pos+n])
	c.pos += n

	return n, nil
}

func (c *c14conn) Write(b []byte) (int, error) {
	c.writes = append(c.writes, append([]byte{}, b...))

	return len(b), nil
}
func (c *c14conn) Close() error        { c.closed.Store(true); return nil }
func (c *c14conn) LocalAddr() net.Addr { return &net.TCPAddr{IP: net.IPv4(10, 0, 0, 1), Port: 1} }
func (c *c14conn) RemoteAddr() net.Addr {
	if c.raddr != nil {
		return c.raddr
	}

	return &net.TCPAddr{IP: net.IPv4(10, 0, 0, 2), Port: 2}
}
func (c *c14conn) SetDeadline(time.Time) error      { return nil }
func (c *c14conn) SetReadDeadline(time.Time) error  { return nil }
func (c *c14conn) SetWriteDeadline(time.Time) error { return nil }

// c14drive runs the real reader to the end of the stream and compares with the reference.
func c14drive(stream []byte, bufCap int, answer func(req, rem int) (int, error)) (problem string, injected bool) {
	ref := c14reference(stream, bufCap)
	conn := &c14conn{stream: stream, answer: answer, segEnds: ref.segEnds}
	buf := make([]byte, bufCap)
	var got [][]byte
	var endErr error
	endN := 0
	if p := safely(func() {
		for i := 0; i < len(stream)+2; i++ {
			n, err := readStreamingPacket(conn, buf)
			if err != nil {
				endErr, endN = err, n

				return
			}
			got = append(got, append([]byte{}, buf[:n]...))
		}
	}); p != "" {
		return "panic: " + p, false
	}
	if len(conn.problems) > 0 {
		return conn.problems[0], false
	}
	if endErr == nil {
		return "reader never reported the end of the stream", false
	}
	if errors.Is(endErr, errC14Injected) {
		// packets delivered before the fault must be a prefix of the reference
		if len(got) > len(ref.packets) {
			return "more packets than framed before an injected error", true
		}
		for i := range got {
			if !bytes.Equal(got[i], ref.packets[i]) {
				return fmt.Sprintf("packet %d differs before an injected error", i), true
			}
		}

		return "", true
	}
	if len(got) != len(ref.packets) {
		return fmt.Sprintf("got %d packets, reference %d (end=%v)", len(got), len(ref.packets), endErr), false
	}
	for i := range got {
		if !bytes.Equal(got[i], ref.packets[i]) {
			return fmt.Sprintf("packet %d: got %x want %x", i, got[i], ref.packets[i]), false
		}
	}
	switch ref.end {
	case "short":
		if !errors.Is(endErr, io.ErrShortBuffer) || endN != ref.shortN {
			return fmt.Sprintf("oversized frame: got (%d,%v) want (%d,ErrShortBuffer)", endN, endErr, ref.shortN), false
		}
	default:
		if !errors.Is(endErr, io.EOF) {
			return fmt.Sprintf("end of stream: got %v want EOF", endErr), false
		}
	}

	return "", false
}

func c14frame(payloads ...[]byte) []byte {
	var s []byte
	for _, p := range payloads {
		h := make([]byte, 2)
		binary.BigEndian.PutUint16(h, uint16(len(p))) //nolint:gosec
		s = append(append(s, h...), p...)
	}

	return s
}

func c14payload(n int, seed byte) []byte {
	p := make([]byte, n)
	for i := range p {
		p[i] = byte(i*7) + seed
	}

	return p
}

func checkC14(c *runCtx) {
	c.setLevel("exploration")
	c.assume("the transport behaves like a TCP net.Conn: Read returns (n>0,nil), (0,EOF) or (0,err); never (0,nil) for a non-empty buffer",
		"activeTCPConn uses the same two framing functions through a real net.Dialer; beyond them it is exercised over a real loopback connection with oracles that do not depend on the segmentation (not exhaustive over segmentations)")
	var evals, nontrivial int
	report := func(part, problem string, cse map[string]any, finding string) {
		cse["part"] = part
		c.violation(finding, part+": "+problem, cse)
	}

	// ---- part 1: all chunkings (+ one injected error at every position) of small framed streams
	maxFrames := 3
	lens := []int{0, 1, 2, 3}
	var streams [][]int
	var rec func(cur []int)
	rec = func(cur []int) {
		if len(cur) > 0 {
			streams = append(streams, append([]int{}, cur...))
		}
		if len(cur) == maxFrames {
			return
		}
		for _, l := range lens {
			rec(append(cur, l))
		}
	}
	rec(nil)
	for _, fl := range streams {
		var pls [][]byte
		for i, l := range fl {
			pls = append(pls, c14payload(l, byte(16*(i+1))))
		}
		stream := c14frame(pls...)
		for _, bufCap := range []int{3, 8192} {
			n, _ := exploreChoices(-1, 0, func(ch *chooser) {
				faulted := false
				short := false
				problem, _ := c14drive(stream, bufCap, func(req, rem int) (int, error) {
					alts := req
					if !faulted {
						alts++ // last alternative: injected error
					}
					k := ch.choose(alts)
					if k == req {
						faulted = true

						return 0, errC14Injected
					}
					if k > 0 {
						short = true
					}

					return req - k, nil
				})
				if short || faulted {
					nontrivial++
				}
				if problem != "" {
					report("reader/all-chunkings", problem, map[string]any{"frame_lengths": fl, "buf_cap": bufCap, "choices": ch.trace}, "")
				}
			})
			evals += n
		}
	}
	c.sample(map[string]any{"part": "reader/all-chunkings", "streams": len(streams), "frame_lengths_example": streams[len(streams)-1], "answers": "every Read returns any 1..req bytes or an injected error"})

	// ---- part 2: large frames, deviation-bounded short reads
	bigLens := []int{255, 256, 257, 8191, 8192, 8193, 65535}
	if c.quick() {
		bigLens = []int{255, 256, 257, 8192, 8193, 65535}
	}
	for _, l := range bigLens {
		for _, second := range []int{-1, 1} {
			pls := [][]byte{c14payload(l, 3)}
			if second >= 0 {
				pls = append(pls, c14payload(second, 9))
			}
			stream := c14frame(pls...)
			caps := map[int]bool{0: true, l - 1: true, l: true, 8192: true, 65535: true}
			for bufCap := range caps {
				n, _ := exploreChoices(2, 0, func(ch *chooser) {
					short := false
					problem, _ := c14drive(stream, bufCap, func(req, rem int) (int, error) {
						// default: everything asked for; deviations: 1 byte, half, all but one
						opts := []int{req}
						for _, o := range []int{1, req / 2, req - 1} {
							if o >= 1 && o < req && o != opts[len(opts)-1] {
								dup := false
								for _, x := range opts {
									dup = dup || x == o
								}
								if !dup {
									opts = append(opts, o)
								}
							}
						}
						k := ch.choose(len(opts))
						if k > 0 {
							short = true
						}

						return opts[k], nil
					})
					if short {
						nontrivial++
					}
					if problem != "" {
						report("reader/large-frames", problem, map[string]any{"frame_length": l, "second": second, "buf_cap": bufCap, "choices": ch.trace}, "")
					}
				})
				evals += n
			}
		}
	}
	c.sample(map[string]any{"part": "reader/large-frames", "lengths": bigLens, "buffers": "0, len-1, len, 8192, 65535", "deviations": "<=2 short reads (1 byte / half / all-but-one) at every Read position"})

	// ---- part 3: arbitrary byte streams
	alphabet := []byte{0x00, 0x01, 0x02, 0xFF}
	maxLen := 6
	if !c.quick() {
		maxLen = 7
	}
	var gen func(cur []byte)
	arbitrary := 0
	gen = func(cur []byte) {
		for _, bufCap := range []int{0, 1, 2, 3, 300} {
			for mode := 0; mode < 2; mode++ { // 0: full reads, 1: one byte at a time
				problem, _ := c14drive(cur, bufCap, func(req, rem int) (int, error) {
					if mode == 1 {
						return 1, nil
					}

					return req, nil
				})
				evals++
				arbitrary++
				if problem != "" {
					report("reader/arbitrary-streams", problem, map[string]any{"stream_hex": fmt.Sprintf("%x", cur), "buf_cap": bufCap, "mode": mode}, "")
				}
			}
		}
		if len(cur) == maxLen {
			return
		}
		for _, b := range alphabet {
			gen(append(append([]byte{}, cur...), b))
		}
	}
	gen(nil)
	nontrivial += arbitrary / 2
	c.sample(map[string]any{"part": "reader/arbitrary-streams", "alphabet": "00 01 02 ff", "max_len": maxLen, "buffers": []int{0, 1, 2, 3, 300}})

	// ---- part 4: writer
	for _, l := range []int{0, 1, 2, 255, 256, 8192, 65534, 65535, 65536, 65537, 65541, 70000, 131072} {
		conn := &c14conn{}
		payload := c14payload(l, 1)
		var n int
		var err error
		if p := safely(func() { n, err = writeStreamingPacket(conn, payload) }); p != "" {
			report("writer", "panic: "+p, map[string]any{"length": l}, "")

			continue
		}
		evals++
		nontrivial++
		if l <= 65535 {
			want := c14frame(payload)
			if err != nil || n != l || len(conn.writes) != 1 || !bytes.Equal(conn.writes[0], want) {
				report("writer", fmt.Sprintf("length %d: n=%d err=%v writes=%d (want one write of header+payload)", l, n, err, len(conn.writes)), map[string]any{"length": l}, "")
			}
		} else if err == nil || len(conn.writes) != 0 {
			// classifier S2: writer case with payload length > 65535
			hdr := ""
			if len(conn.writes) > 0 && len(conn.writes[0]) >= 2 {
				hdr = fmt.Sprintf(" (header on the wire says %d)", binary.BigEndian.Uint16(conn.writes[0]))
			}
			report("writer", fmt.Sprintf("length %d does not fit the 16-bit length field but n=%d err=%v, %d write(s)%s", l, n, err, len(conn.writes), hdr), map[string]any{"length": l}, "S2")
		}
	}
	c.sample(map[string]any{"part": "writer", "lengths": "0,1,2,255,256,8192,65534,65535,65536,65537,65541,70000,131072"})

	// ---- part 5: round trip through tcpPacketConn (AddConn + ReadFrom / WriteTo)
	rtStreams := streams
	if c.quick() {
		rtStreams = nil
		for _, s := range streams {
			if len(s) <= 2 {
				rtStreams = append(rtStreams, s)
			}
		}
	}
	for _, fl := range rtStreams {
		var pls [][]byte
		for i, l := range fl {
			pls = append(pls, c14payload(l, byte(32*(i+1))))
		}
		stream := c14frame(pls...)
		n, _ := exploreChoices(-1, 0, func(ch *chooser) {
			problem := c14roundTrip(stream, pls, func(req, rem int) (int, error) { return req - ch.choose(req), nil })
			nontrivial++
			if problem != "" {
				report("tcpPacketConn round trip", problem, map[string]any{"frame_lengths": fl, "choices": ch.trace}, "")
			}
		})
		evals += n
	}
	// MTU-sized packets through the user, a few fixed chunk patterns
	for _, l := range []int{8191, 8192} {
		pls := [][]byte{c14payload(l, 5), c14payload(7, 6)}
		for _, chunk := range []int{1, 2, 3, 1000, 8192, 1 << 20} {
			problem := c14roundTrip(c14frame(pls...), pls, func(req, rem int) (int, error) {
				if chunk < req {
					return chunk, nil
				}

				return req, nil
			})
			evals++
			nontrivial++
			if problem != "" {
				report("tcpPacketConn round trip", problem, map[string]any{"frame_lengths": []int{l, 7}, "chunk": chunk}, "")
			}
		}
	}
	// the sending side through the user: every packet of up to receiveMTU bytes that WriteTo accepted is on the wire as
	// one RFC 4571 frame, in order — directly and through the buffered writer (TCPMuxParams.WriteBufferSize > 0)
	for _, wb := range []int{0, 1 << 20} {
		for _, sizes := range [][]int{{1, 255, 7}, {8189, 7}, {8190, 7}, {8191, 7}, {8192, 7}, {100, 8190, 8191, 8192, 7, 8192, 1}, {8193, 7}, {9000, 7, 65535, 1}} {
			problem := c14sendSide(c.t, wb, sizes)
			evals++
			nontrivial++
			if problem != "" {
				finding := ""
				if wb > 0 && strings.Contains(problem, "frames on the wire") {
					finding = "S33"
				}
				report("tcpPacketConn sending side", fmt.Sprintf("write buffer %d, packets of %v bytes: %s", wb, sizes, problem), map[string]any{"write_buffer": wb, "sizes": sizes}, finding)
			}
		}
	}
	// the first frame of an accepted connection, as the TCP mux reads it (512-byte buffer): every announced length on a
	// boundary, with the body present, cut short or absent. No panic; a frame that does not fit ends the stream.
	for _, l := range []int{0, 1, 19, 20, 511, 512, 513, 600, 8192, 65535} {
		for _, body := range []string{"full", "half", "none"} {
			problem := c14firstFrame(c.t, l, body)
			evals++
			nontrivial++
			if problem != "" {
				report("TCP mux, first frame", fmt.Sprintf("announced length %d, body %s: %s", l, body, problem), map[string]any{"length": l, "body": body}, "")
			}
		}
	}
	// hostile streams through the user: a frame larger than the receive buffer (whose body looks like well-formed
	// frames), truncated frames, garbage. Exactly the packets before the offending frame are delivered, then the stream is closed.
	evil := c14frame([]byte("EVIL"), []byte("MORE"))
	for _, over := range []int{receiveMTU + 1, receiveMTU + 2, 30000, 65535} {
		for _, lead := range [][]byte{nil, c14frame(c14payload(3, 9))} {
			stream := append(append([]byte{}, lead...), byte(over>>8), byte(over))
			stream = append(stream, evil...)
			stream = append(stream, c14payload(over, 1)...)
			for _, chunk := range []int{1, 2, 5, 1 << 20} {
				ref := c14reference(stream, receiveMTU)
				problem := c14roundTrip(stream, ref.packets, func(req, rem int) (int, error) {
					if chunk < req {
						return chunk, nil
					}

					return req, nil
				})
				evals++
				nontrivial++
				if problem != "" {
					report("tcpPacketConn hostile stream", problem, map[string]any{"oversized_frame": over, "leading_frames": len(lead) > 0, "chunk": chunk}, "")
				}
			}
		}
	}
	for _, stream := range [][]byte{{0x00}, {0x00, 0x05, 'a', 'b'}, append(c14frame([]byte("ok")), 0x00, 0x09, 'x'), {0xff, 0xff}, {0x20, 0x01, 0x00, 0x02, 'h', 'i'}} {
		ref := c14reference(stream, receiveMTU)
		n, _ := exploreChoices(-1, 0, func(ch *chooser) {
			problem := c14roundTrip(stream, ref.packets, func(req, rem int) (int, error) { return req - ch.choose(req), nil })
			nontrivial++
			if problem != "" {
				report("tcpPacketConn hostile stream", problem, map[string]any{"stream": fmt.Sprintf("%x", stream), "choices": ch.trace}, "")
			}
		})
		evals += n
	}
	c.sample(map[string]any{"part": "tcpPacketConn round trip", "streams": len(rtStreams), "answers": "all chunkings", "mtu": "8191/8192-byte packets with chunk sizes 1,2,3,1000,8192,unbounded",
		"hostile": "frames of 8193, 8194, 30000, 65535 bytes whose body is well-formed frames, with and without a leading valid frame; truncated and garbage streams in all chunkings"})

	// ---- part 6: activeTCPConn (the dialing side of a TCP candidate) over a real loopback connection. The segmentation
	// is whatever the kernel does, so this part adds no exhaustiveness; every oracle is independent of it (same
	// packets, same order, nothing fabricated). Waiting is only ever for something a correct implementation must do.
	for _, sc := range []string{"frames-in", "frames-out", "duplex", "oversized-in", "garbage-in"} {
		problem := c14active(sc)
		evals++
		nontrivial++
		if problem != "" {
			report("activeTCPConn over loopback", sc+": "+problem, map[string]any{"scenario": sc}, "")
		}
	}
	c.sample(map[string]any{"part": "activeTCPConn over loopback", "scenarios": "frames of 1/255/8192 bytes inbound (written byte-wise and at once) and outbound; inbound frames of 40/1000/8192 bytes in three segments with an outbound packet written and received between the segments; an oversized frame whose body is well-formed frames; a garbage stream"})

	// the receiving side of a TCP mux connection under the controlled scheduler: a read whose deadline has passed
	// either returns the queued packet or times out, it never takes the packet away (the select inside is a choice point)
	if os.Getenv("VERIF_VARIANT") == "instr" {
		csExplore(c, "tcpconn-deadline-read", 3, time.Now().Add(120*time.Second), nil)
	} else {
		c.capHit("built without instrumentation: the deadline-read interleavings were not run")
	}
	c.set("evaluations", evals)
	c.set("distinct_nontrivial", nontrivial)
	c.set("rule", "an evaluation is one complete run of the real reader/writer over one (stream, buffer, sequence of transport answers); executions are generated by depth-first enumeration of every answer sequence, so all are distinct; non-trivial = at least one short read / injected fault / hostile stream / boundary length (default full-read runs are not counted)")
}

func c14roundTrip(stream []byte, want [][]byte, answer func(req, rem int) (int, error)) string {
	pc := newTCPPacketConn(tcpPacketParams{ReadBuffer: 64, LocalAddr: &net.TCPAddr{IP: net.IPv4(10, 0, 0, 1), Port: 1}, Logger: nopLogger{}})
	ref := c14reference(stream, receiveMTU)
	conn := &c14conn{stream: stream, answer: answer, segEnds: ref.segEnds}
	if err := pc.AddConn(conn, nil); err != nil {
		return "AddConn: " + err.Error()
	}
	buf := make([]byte, receiveMTU)
	var got [][]byte
	for {
		n, addr, err := pc.ReadFrom(buf)
		if err != nil {
			break
		}
		if addr.String() != conn.RemoteAddr().String() {
			return "wrong remote address " + addr.String()
		}
		got = append(got, append([]byte{}, buf[:n]...))
		if len(got) > len(want)+1 {
			break
		}
	}
	_ = pc.Close()
	if len(conn.problems) > 0 {
		return conn.problems[0]
	}
	if len(got) != len(want) {
		return fmt.Sprintf("got %d packets want %d", len(got), len(want))
	}
	for i := range got {
		if !bytes.Equal(got[i], want[i]) {
			return fmt.Sprintf("packet %d differs", i)
		}
	}
	if !conn.closed.Load() {
		return "stream not closed after EOF"
	}

	return ""
}

// c14sendSide writes packets through tcpPacketConn.WriteTo to a stream that records what it is given.
func c14sendSide(t *testing.T, writeBuffer int, sizes []int) (problem string) {
	inBubble(t, func() {
		pc := newTCPPacketConn(tcpPacketParams{ReadBuffer: 64, WriteBuffer: writeBuffer, LocalAddr: &net.TCPAddr{IP: net.IPv4(10, 0, 0, 1), Port: 1}, Logger: nopLogger{}})
		conn := &c14sink{done: make(chan struct{})}
		if err := pc.AddConn(conn, nil); err != nil {
			problem = "AddConn: " + err.Error()

			return
		}
		var want []int
		var wantP [][]byte
		for i, l := range sizes {
			p := c14payload(l, byte(3*i+1))
			n, err := pc.WriteTo(p, conn.RemoteAddr())
			if err == nil && n == l {
				want = append(want, l)
				wantP = append(wantP, p)
			} else if err == nil || l <= receiveMTU { // (a longer packet may be refused, with an error)
				problem = fmt.Sprintf("WriteTo(%d bytes) = %d, %v", l, n, err)
			}
		}
		synctest.Wait()
		conn.mu.Lock()
		wire := append([]byte{}, conn.wire...)
		conn.mu.Unlock()
		var got []int
		var gotP [][]byte
		for len(wire) >= 2 {
			l := int(wire[0])<<8 | int(wire[1])
			if len(wire) < 2+l {
				got = append(got, -1) // a frame that announces more than follows

				break
			}
			got = append(got, l)
			gotP = append(gotP, wire[2:2+l])
			wire = wire[2+l:]
		}
		if len(wire) == 1 {
			got = append(got, -2) // a dangling header byte
		}
		// every accepted packet of up to receiveMTU bytes is on the wire, in order and unchanged; a longer one (which the
		// framing allows and the buffered writer does not carry) is there whole or not at all
		k := 0
		for i, p := range wantP {
			if k < len(gotP) && bytes.Equal(gotP[k], p) {
				k++
			} else if len(p) <= receiveMTU && problem == "" {
				problem = fmt.Sprintf("frames on the wire %v, packets accepted by WriteTo %v (packet %d is missing or changed)", got, want, i)
			}
		}
		if (k != len(gotP) || len(got) != len(gotP)) && problem == "" {
			problem = fmt.Sprintf("frames on the wire %v, packets accepted by WriteTo %v (the stream carries something that was not written)", got, want)
		}
		_ = pc.Close()
		_ = conn.Close()
		synctest.Wait()
	})

	return problem
}

// c14firstFrame hands a scripted stream to TCPMuxDefault.handleConn (called synchronously, the way its accept loop
// does on a goroutine of its own).
func c14firstFrame(t *testing.T, length int, body string) (problem string) {
	inBubble(t, func() {
		lis := &fakeLis{ch: make(chan net.Conn), closed: make(chan struct{}), addr: &net.TCPAddr{IP: net.IPv4(10, 0, 0, 1), Port: 7001}}
		m := NewTCPMuxDefault(TCPMuxParams{Listener: lis, Logger: nopLogger{}, ReadBufferSize: 16})
		defer m.Close() //nolint:errcheck
		stream := []byte{byte(length >> 8), byte(length)}
		switch body {
		case "full":
			stream = append(stream, c14payload(length, 9)...)
		case "half":
			stream = append(stream, c14payload(length/2, 9)...)
		}
		conn := &c14conn{stream: stream, answer: func(req, _ int) (int, error) { return req, nil }}
		func() {
			defer func() {
				if r := recover(); r != nil {
					problem = fmt.Sprintf("the mux panics on the first frame: %v", r)
				}
			}()
			m.handleConn(conn)
		}()
		synctest.Wait()
		if problem == "" && length > 512 && !conn.closed.Load() {
			problem = "a first frame that does not fit the mux's buffer did not end the stream"
		}
	})

	return problem
}

// c14sink: a stream whose peer sends nothing and records what it is given.
type c14sink struct {
	mu   sync.Mutex
	wire []byte
	done chan struct{}
	once sync.Once
}

func (c *c14sink) Read([]byte) (int, error) { <-c.done; return 0, net.ErrClosed }
func (c *c14sink) Write(b []byte) (int, error) {
	c.mu.Lock()
	defer c.mu.Unlock()
	c.wire = append(c.wire, b...)

	return len(b), nil
}
func (c *c14sink) Close() error                     { c.once.Do(func() { close(c.done) }); return nil }
func (c *c14sink) LocalAddr() net.Addr              { return &net.TCPAddr{IP: net.IPv4(10, 0, 0, 1), Port: 1} }
func (c *c14sink) RemoteAddr() net.Addr             { return &net.TCPAddr{IP: net.IPv4(10, 0, 0, 2), Port: 2} }
func (c *c14sink) SetDeadline(time.Time) error      { return nil }
func (c *c14sink) SetReadDeadline(time.Time) error  { return nil }
func (c *c14sink) SetWriteDeadline(time.Time) error { return nil }

// c14active runs one scenario of the dialing side against a loopback listener owned by the harness.
func c14active(scenario string) string {
	lis, err := net.Listen("tcp", "127.0.0.1:0")
	if err != nil {
		return "" // no loopback TCP in this environment: nothing to judge
	}
	defer lis.Close() //nolint:errcheck
	ctx, cancel := context.WithCancel(context.Background())
	defer cancel()
	ac := newActiveTCPConn(ctx, "127.0.0.1:0", netip.MustParseAddrPort(lis.Addr().String()), nopLogger{})
	defer ac.Close() //nolint:errcheck
	_ = lis.(*net.TCPListener).SetDeadline(time.Now().Add(30 * time.Second))
	peer, err := lis.Accept()
	if err != nil {
		return "the active side did not connect: " + err.Error()
	}
	defer peer.Close() //nolint:errcheck
	type rd struct {
		pkt []byte
		err error
	}
	reads := make(chan rd, 64)
	go func() {
		for {
			buf := make([]byte, receiveMTU)
			n, _, err := ac.ReadFrom(buf)
			reads <- rd{buf[:n], err}
			if err != nil {
				return
			}
		}
	}()
	expect := func(want [][]byte) string {
		for i, w := range want {
			select {
			case r := <-reads:
				if r.err != nil {
					return fmt.Sprintf("packet %d: ReadFrom returned %v", i, r.err)
				}
				if !bytes.Equal(r.pkt, w) {
					return fmt.Sprintf("packet %d differs (got %d bytes, want %d)", i, len(r.pkt), len(w))
				}
			case <-time.After(60 * time.Second):
				return fmt.Sprintf("packet %d was not delivered", i)
			}
		}

		return ""
	}
	noMore := func(what string) string {
		select {
		case r := <-reads:
			if r.err == nil {
				return fmt.Sprintf("%s: the reader received a fabricated packet of %d bytes: %q", what, len(r.pkt), r.pkt[:min(len(r.pkt), 16)])
			}
		case <-time.After(300 * time.Millisecond):
		}

		return ""
	}
	switch scenario {
	case "frames-in":
		pls := [][]byte{c14payload(1, 1), c14payload(255, 2), c14payload(receiveMTU, 3), c14payload(7, 4)}
		stream := c14frame(pls...)
		for i := 0; i < 40 && i < len(stream); i++ { // the first bytes one by one, the rest at once
			if _, err := peer.Write(stream[i : i+1]); err != nil {
				return err.Error()
			}
		}
		if _, err := peer.Write(stream[40:]); err != nil {
			return err.Error()
		}
		if p := expect(pls); p != "" {
			return p
		}

		return noMore("after the last frame")
	case "frames-out":
		pls := [][]byte{c14payload(1, 1), c14payload(255, 2), c14payload(receiveMTU, 3), c14payload(7, 4)}
		for _, p := range pls {
			if n, err := ac.WriteTo(p, nil); err != nil || n != len(p) {
				return fmt.Sprintf("WriteTo(%d bytes) = %d, %v", len(p), n, err)
			}
		}
		want := c14frame(pls...)
		got := make([]byte, len(want))
		_ = peer.SetReadDeadline(time.Now().Add(60 * time.Second))
		if _, err := io.ReadFull(peer, got); err != nil {
			return "the peer did not receive the framed packets: " + err.Error()
		}
		if !bytes.Equal(got, want) {
			return "the byte stream received by the peer is not the RFC 4571 framing of the packets written"
		}
	case "duplex":
		// both directions at once: every inbound frame arrives in three segments and an outbound packet is written
		// (and seen on the wire by the peer) between the segments; neither direction may disturb the other
		peerGot := func(want []byte) string {
			got := make([]byte, len(want))
			_ = peer.SetReadDeadline(time.Now().Add(60 * time.Second))
			if _, err := io.ReadFull(peer, got); err != nil {
				return "the peer did not receive the framed packet: " + err.Error()
			}
			if !bytes.Equal(got, want) {
				return "the byte stream received by the peer is not the RFC 4571 framing of the packet written"
			}

			return ""
		}
		for k, sz := range []int{1000, receiveMTU, 40} {
			in := c14payload(sz, byte(10+k))
			stream := c14frame(in)
			cuts := []int{1, 2 + sz*9/10, len(stream)}
			from := 0
			for j, cut := range cuts {
				if _, err := peer.Write(stream[from:cut]); err != nil {
					return err.Error()
				}
				from = cut
				if j == len(cuts)-1 {
					break
				}
				time.Sleep(50 * time.Millisecond) // let the reader take the segment (no alarm depends on it)
				out := c14payload(sz-7*j, byte(0xa0+k+j))
				if n, err := ac.WriteTo(out, nil); err != nil || n != len(out) {
					return fmt.Sprintf("WriteTo(%d bytes) = %d, %v", len(out), n, err)
				}
				if p := peerGot(c14frame(out)); p != "" {
					return p
				}
			}
			if p := expect([][]byte{in}); p != "" {
				return fmt.Sprintf("inbound frame of %d bytes delivered in segments while packets were written: %s", sz, p)
			}
		}

		return noMore("after the last frame")
	case "oversized-in":
		lead := c14payload(3, 9)
		stream := c14frame(lead)
		over := receiveMTU + 1
		stream = append(stream, byte(over>>8), byte(over&0xff))
		stream = append(stream, c14frame([]byte("EVIL"), []byte("MORE"))...)
		stream = append(stream, c14payload(over, 1)...)
		if _, err := peer.Write(stream); err != nil {
			return err.Error()
		}
		if p := expect([][]byte{lead}); p != "" {
			return p
		}

		return noMore("after a frame larger than the receive buffer")
	case "garbage-in":
		if _, err := peer.Write([]byte{0xff, 0xff, 0x00, 0x04, 'E', 'V', 'I', 'L', 0x00, 0x04, 'M', 'O', 'R', 'E'}); err != nil {
			return err.Error()
		}

		return noMore("after a 65535-byte length header")
	}

	return ""
}
