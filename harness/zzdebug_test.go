package ice

import (
	"encoding/json"
	"fmt"
	"os"
	"strings"
	"testing"
)

// TestVerifDebugHistory: developer aid. VERIF_DEBUG_MODEL, VERIF_DEBUG_CFG (JSON), VERIF_DEBUG_HIST (comma separated),
// VERIF_DEBUG_N: replays the history N times on fresh worlds and prints the per-step (enabled, key) trail of every run
// that differs from the first.
func TestVerifDebugHistory(t *testing.T) {
	model := os.Getenv("VERIF_DEBUG_MODEL")
	if model == "" {
		t.Skip("developer aid")
	}
	hist := strings.Split(os.Getenv("VERIF_DEBUG_HIST"), ",")
	n := 50
	fmt.Sscan(os.Getenv("VERIF_DEBUG_N"), &n) //nolint:errcheck
	var first []string
	diffs := 0
	for i := 0; i < n; i++ {
		var trail []string
		inBubble(t, func() {
			m := vtModels[model](json.RawMessage(os.Getenv("VERIF_DEBUG_CFG")))
			defer m.Close()
			for _, ev := range hist {
				ok := false
				for _, e := range m.Enabled() {
					ok = ok || e == ev
				}
				if !ok {
					trail = append(trail, fmt.Sprintf("EVENT %s NOT ENABLED; enabled=%v", ev, m.Enabled()))

					return
				}
				m.Apply(ev)
				k, _ := m.Key()
				trail = append(trail, fmt.Sprintf("after %s: enabled=%v\n      key=%s", ev, m.Enabled(), k))
			}
		})
		if first == nil {
			first = trail
			fmt.Println("RUN 0:\n  " + strings.Join(trail, "\n  "))

			continue
		}
		if strings.Join(trail, "|") != strings.Join(first, "|") {
			diffs++
			for j := range trail {
				if j >= len(first) || trail[j] != first[j] {
					fmt.Printf("RUN %d differs at step %d:\n  %s\n", i, j, trail[j])

					break
				}
			}
		}
	}
	fmt.Printf("%d of %d runs differ from the first\n", diffs, n)
}
