package ice

// Engine CS, harness side: scenario registry, worker processes (one shard of the top-level
// alternatives each), aggregation into the evidence file.

import (
	"bufio"
	"bytes"
	"encoding/json"
	"fmt"
	"os"
	"os/exec"
	"sort"
	"strconv"
	"strings"
	"sync"
	"testing"
	"time"

	"github.com/pion/ice/v4/internal/zzmc"
)

var csScenarios = map[string]func() zzmc.Scenario{} //nolint:gochecknoglobals

type csMsg struct {
	Type    string        `json:"type"` // "fail" | "stats"
	Failure *zzmc.Failure `json:"failure,omitempty"`
	Stats   *zzmc.Stats   `json:"stats,omitempty"`
}

// TestVerifCSWorker explores one shard of one scenario and streams results on fd 3.
func TestVerifCSWorker(t *testing.T) {
	name := os.Getenv("VERIF_CS_SCEN")
	if name == "" {
		t.Skip("not a CS worker")
	}
	mk, ok := csScenarios[name]
	if !ok {
		fmt.Println("unknown scenario", name)
		os.Exit(2)
	}
	out := json.NewEncoder(os.NewFile(3, "results"))
	var mu sync.Mutex
	emit := func(f zzmc.Failure) {
		mu.Lock()
		_ = out.Encode(csMsg{Type: "fail", Failure: &f})
		mu.Unlock()
	}
	bound, _ := strconv.Atoi(os.Getenv("VERIF_CS_BOUND"))
	zzmc.PathOrder = os.Getenv("VERIF_CS_ORDER") == "path"
	shard, shards := 0, 1
	fmt.Sscanf(os.Getenv("VERIF_CS_SHARD"), "%d/%d", &shard, &shards) //nolint:errcheck
	maxExecs, _ := strconv.Atoi(os.Getenv("VERIF_CS_MAXEXECS"))
	var dl time.Time
	if s, _ := strconv.ParseInt(os.Getenv("VERIF_CS_DEADLINE"), 10, 64); s > 0 {
		dl = time.Unix(s, 0)
	}
	zzmc.EarlyFail = emit
	// watchdog: an execution that makes no progress for 90 s of wall clock is spinning outside the scheduler's
	// control (a busy loop after teardown); it is reported and this process gives up
	go func() {
		for {
			time.Sleep(5 * time.Second)
			if prefix, at := zzmc.Progress(); !at.IsZero() && time.Since(at) > 90*time.Second {
				emit(zzmc.Failure{Msg: "hang: one execution did not finish within 90 s of wall clock (a busy loop outside the scheduler's control)", Choices: prefix})
				os.Exit(3)
			}
		}
	}()
	zzmc.HorizonExit = func(zzmc.Failure) { os.Exit(3) }
	st := zzmc.Explore(t, mk(), zzmc.Options{Bound: bound, Shard: shard, Shards: shards, MaxExecs: maxExecs, Deadline: dl})
	mu.Lock()
	_ = out.Encode(csMsg{Type: "stats", Stats: &st})
	mu.Unlock()
	os.Exit(0)
}

type csClassifier func(f zzmc.Failure) (finding string)

// csExplore runs scenario name with at most bound deviations on all cores and merges the results.
// csRecMu guards what harness threads record after a call has returned: under the coarse focus the tails of two
// threads can run side by side (a thread that waited on one of the agent's own mutexes resumes on its own).
var csRecMu sync.Mutex //nolint:gochecknoglobals

func csRec(f func()) {
	csRecMu.Lock()
	defer csRecMu.Unlock()
	f()
}

func csExplore(c *runCtx, name string, bound int, deadline time.Time, classify csClassifier) zzmc.Stats {
	st := csExploreOrder(c, name, bound, deadline, classify, "")
	if !c.quick() && bound > 1 && time.Now().Before(deadline) {
		// thorough: the same bound-limited search around a second default schedule (children before later threads)
		csExploreOrder(c, name, bound-1, deadline, classify, "path")
	}

	return st
}

func csExploreOrder(c *runCtx, name string, bound int, deadline time.Time, classify csClassifier, order string) zzmc.Stats {
	label := name
	if order != "" {
		label += " (" + order + " order)"
	}
	shards, _ := strconv.Atoi(os.Getenv("VERIF_WORKERS"))
	if shards <= 0 {
		shards = 8
	}
	if bound == 0 {
		shards = 1
	}
	total := zzmc.Stats{Outcomes: map[string]int{}}
	var mu sync.Mutex
	var wg sync.WaitGroup
	seenFail := map[string]bool{}
	report := func(f zzmc.Failure, early bool) {
		mu.Lock()
		defer mu.Unlock()
		key := f.Msg // one replay per distinct failure (the first schedule that shows it); the count of failing executions is in the statistics
		if seenFail[key] {
			return
		}
		seenFail[key] = true
		finding := ""
		if classify != nil {
			finding = classify(f)
		}
		c.violation(finding, fmt.Sprintf("[%s, d<=%d] %s", label, bound, f.Msg), map[string]any{"engine": "cs", "scenario": name, "order": order, "choices": f.Choices, "trace": f.Trace, "variant": "instr"})
	}
	workerRestarts := 0
	for sh := 0; sh < shards; sh++ {
		wg.Add(1)
		go func(sh int) {
			defer wg.Done()
			// a worker that dies without a result (an engine panic such as a replay divergence, a fatal runtime error in the
			// harness) is started again, twice at most: the shard is a deterministic function of its arguments
			for attempt := 0; ; attempt++ {
				pr, pw, err := os.Pipe()
				if err != nil {
					c.engineError("pipe: %v", err)

					return
				}
				cmd := exec.Command(os.Args[0], childArgs("-test.run", "^TestVerifCSWorker$", "-test.timeout", "0")...) //nolint:gosec
				cmd.Env = append(os.Environ(), "VERIF_CS_SCEN="+name, "VERIF_CS_BOUND="+strconv.Itoa(bound), fmt.Sprintf("VERIF_CS_SHARD=%d/%d", sh, shards),
					"VERIF_CHECK=", "VERIF_PROP="+c.prop, "VERIF_CS_ORDER="+order, "GOMAXPROCS=2", "VERIF_CS_DEADLINE="+strconv.FormatInt(deadline.Unix(), 10))
				cmd.ExtraFiles = []*os.File{pw}
				var stderr bytes.Buffer
				cmd.Stderr, cmd.Stdout = &stderr, &stderr
				if err := cmd.Start(); err != nil {
					c.engineError("start worker: %v", err)

					return
				}
				_ = pw.Close()
				rd := bufio.NewReaderSize(pr, 1<<20)
				gotStats, gotEarly := false, false
				for {
					line, err := rd.ReadBytes('\n')
					if err != nil {
						break
					}
					var m csMsg
					if json.Unmarshal(line, &m) != nil {
						continue
					}
					switch m.Type {
					case "fail":
						gotEarly = true
						report(*m.Failure, true)
					case "stats":
						gotStats = true
						mu.Lock()
						st := m.Stats
						total.Execs += st.Execs
						total.Steps += st.Steps
						total.Schedules += st.Schedules
						total.NFailures += st.NFailures
						if st.MaxChoice > total.MaxChoice {
							total.MaxChoice = st.MaxChoice
						}
						for k, v := range st.Outcomes {
							total.Outcomes[k] += v
						}
						if st.Capped != "" {
							total.Capped = st.Capped
						}
						if total.Sample == nil {
							total.Sample = st.Sample
						}
						mu.Unlock()
						for _, f := range st.Failures {
							report(f, false)
						}
					}
				}
				_ = cmd.Wait()
				if !gotStats {
					tail := stderr.String()
					if len(tail) > 3000 {
						tail = tail[len(tail)-3000:]
					}
					if gotEarly {
						mu.Lock()
						total.Capped = "a worker died after reporting a deadlock (the bubble could not drain)"
						mu.Unlock()
					} else if attempt < 2 {
						mu.Lock()
						workerRestarts++
						mu.Unlock()

						continue
					} else {
						c.engineError("[%s] CS worker %d/%d died without result (three attempts): %s", label, sh, shards, tail)
					}
				}

				return
			}
		}(sh)
	}
	wg.Wait()
	if workerRestarts > 0 {
		c.add("cs_worker_restarts", workerRestarts)
	}
	c.add("executions", total.Execs)
	c.add("states", total.Steps) // scheduler decisions taken on the real code
	c.add("transitions", total.Steps)
	c.add("traces_validated_against_impl", total.Execs)
	c.add("distinct_schedules", total.Schedules)
	var outs []string
	for k, v := range total.Outcomes {
		outs = append(outs, fmt.Sprintf("%s x%d", k, v))
	}
	sort.Strings(outs)
	if len(outs) > 12 {
		outs = append(outs[:12], fmt.Sprintf("... (%d distinct outcomes)", len(total.Outcomes)))
	}
	c.mu.Lock()
	scen, _ := c.cov["scenarios"].([]any)
	c.cov["scenarios"] = append(scen, map[string]any{"name": label, "deviation_bound_completed": bound, "executions": total.Execs, "scheduler_steps": total.Steps,
		"distinct_schedules": total.Schedules, "distinct_outcomes": len(total.Outcomes), "outcomes": outs, "max_choice_points": total.MaxChoice, "capped": total.Capped, "failing_executions": total.NFailures})
	do, _ := c.cov["distinct_outcomes"].(int)
	c.cov["distinct_outcomes"] = do + len(total.Outcomes)
	c.mu.Unlock()
	if total.Capped != "" {
		c.capHit(fmt.Sprintf("[%s] %s", label, total.Capped))
	}
	if total.Sample != nil {
		c.sample(map[string]any{"scenario": label, "schedule": strings.Join(total.Sample, " ")})
	}

	return total
}

// csReplay re-executes one recorded schedule.
func csReplay(c *runCtx, raw json.RawMessage) string {
	var doc struct {
		Scenario string `json:"scenario"`
		Order    string `json:"order"`
		Choices  []int  `json:"choices"`
	}
	if err := json.Unmarshal(raw, &doc); err != nil {
		return "bad replay file: " + err.Error()
	}
	zzmc.PathOrder = doc.Order == "path"
	mk, ok := csScenarios[doc.Scenario]
	if !ok {
		return "unknown scenario " + doc.Scenario
	}
	_ = os.Setenv("VERIF_PROP", c.prop)
	_, _, failure := zzmc.RunOne(c.t, mk(), doc.Choices)

	return failure
}

// anyReplay dispatches a replay file to the engine that produced it.
func anyReplay(c *runCtx, raw json.RawMessage) string {
	var doc struct {
		Engine string `json:"engine"`
	}
	_ = json.Unmarshal(raw, &doc)
	if doc.Engine == "cs" {
		return csReplay(c, raw)
	}

	return vtReplay(c, raw)
}

func init() {
	for _, p := range []string{"C04", "C08", "C09", "C12", "C15"} {
		vReplayers[p] = anyReplay
	}
}

// ownershipJudged: the lockset discipline on the agent's fields is C10's subject; scenarios shared with other
// properties record it only when they run for C10 (a replay keeps the property of the run that produced it).
func ownershipJudged() bool { return os.Getenv("VERIF_PROP") == "C10" }
