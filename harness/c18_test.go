package ice

// C18 — gathering produces exactly the candidates the configuration allows.
// (a) configuration space: every configuration of the pools runs one gathering cycle to completion on the
//     fake Net and is compared with an oracle computed from (configuration, interface table);
// (b) cycle control: the gathering model of C09 (VT) and the gather-vs-Restart scenarios (CS).

import (
	"encoding/json"
	"fmt"
	"net"
	"os"
	"sort"
	"strings"
	"time"

	"github.com/pion/ice/v4/internal/zzmc"
)

func init() {
	registerCheck("C18", checkC18)
	vReplayers["C18"] = anyReplay
}

var c18ifaces = map[string]gIface{ //nolint:gochecknoglobals
	"eth0": {Name: "eth0", Up: true, Addrs: []string{"10.0.0.1", "2001:db8::1"}},
	"eth1": {Name: "eth1", Up: true, Addrs: []string{"192.168.1.2", "fe80::2", "fec0::1", "fed1::1", "feff:ffff::1", "::10.0.0.9"}},
	"lo":   {Name: "lo", Up: true, Loopback: true, Addrs: []string{"127.0.0.1", "::1"}},
	"eth2": {Name: "eth2", Up: false, Addrs: []string{"10.9.9.9"}},
}

type c18expect struct {
	host map[string]bool // "udp|tcp addr" of host candidates that must be published (port checked separately)
}

func c18has(nts []string, pred func(string) bool) bool {
	if len(nts) == 0 {
		return true // an empty network-type list means all
	}
	for _, n := range nts {
		if pred(n) {
			return true
		}
	}

	return false
}

// c18oracle: the host candidates the statement requires, as "transport address".
func c18oracle(cfg gatherCfg) map[string]bool {
	want := map[string]bool{}
	hostOn := false
	for _, t := range cfg.CandTypes {
		hostOn = hostOn || t == "host"
	}
	if !hostOn {
		return want
	}
	fam := func(transport, family string) bool {
		return c18has(cfg.NetTypes, func(n string) bool { return n == transport+family })
	}
	var deny *net.IPNet
	if cfg.IPFilterDeny != "" {
		_, deny, _ = net.ParseCIDR(cfg.IPFilterDeny)
	}
	for _, ic := range cfg.Ifaces {
		if !ic.Up || (ic.Loopback && !cfg.Loopback) || (cfg.IfaceFilter != "" && cfg.IfaceFilter != ic.Name) {
			continue
		}
		for _, a := range ic.Addrs {
			ip := net.ParseIP(a)
			family := "6"
			if ip.To4() != nil {
				family = "4"
			}
			if ip.IsLoopback() && !cfg.Loopback {
				continue
			}
			if family == "6" {
				v4compat := true
				for _, b := range ip[:12] {
					v4compat = v4compat && b == 0
				}
				siteLocal := ip[0] == 0xfe && ip[1]&0xc0 == 0xc0
				if (ip.IsLinkLocalUnicast() && !cfg.MDNS) || siteLocal || (v4compat && !ip.IsLoopback()) {
					continue // never published (a link-local address may hide behind the mDNS name)
				}
			}
			if deny != nil && deny.Contains(ip) {
				continue
			}
			if fam("udp", family) && cfg.UDPMux == "" && !cfg.BusyPorts {
				want["udp "+ip.String()] = true
			}
			if fam("tcp", family) && cfg.TCPMux != "" {
				mh, _, _ := net.SplitHostPort(cfg.TCPMux)
				if mip := net.ParseIP(mh); mip.IsUnspecified() || mip.Equal(ip) {
					want["tcp "+ip.String()] = true
				}
			}
		}
	}
	if cfg.UDPMux != "" {
		mh, _, _ := net.SplitHostPort(cfg.UDPMux)
		mip := net.ParseIP(mh)
		mfam := "6"
		if mip.To4() != nil {
			mfam = "4"
		}
		switch {
		case mip.IsUnspecified():
			// a mux on the wildcard address lends its socket for every address of its family on every interface that is
			// up (the mux enumerates them itself: the agent's filters do not apply, its loopback setting and network types do)
			for _, ic := range cfg.Ifaces {
				if !ic.Up {
					continue
				}
				for _, a := range ic.Addrs {
					ip := net.ParseIP(a)
					if (ip.To4() != nil) != (mfam == "4") || (ip.IsLoopback() && !cfg.Loopback) {
						continue
					}
					if fam("udp", mfam) {
						want["udp "+ip.String()] = true
					}
				}
			}
		case (!mip.IsLoopback() || cfg.Loopback) && fam("udp", mfam):
			want["udp "+mip.String()] = true // borrowed from the mux: filters and port range do not apply, the network type does
		}
	}

	return want
}

type c18verdict struct {
	problems []vtProblem
	class    string
}

func c18run(cfg gatherCfg) c18verdict {
	var v c18verdict
	bad := func(finding, format string, args ...any) {
		v.problems = append(v.problems, vtProblem{finding, fmt.Sprintf(format, args...)})
	}
	raw, _ := json.Marshal(cfg)
	gw := newGatherWorld(raw)
	defer gw.Close()
	if err := gw.a.GatherCandidates(); err != nil {
		bad("", "GatherCandidates: %v", err)

		return v
	}
	quiesce()
	for i := 0; i < 20; i++ {
		if st, _ := gw.a.GetGatheringState(); st == GatheringStateComplete {
			break
		}
		p := gw.pendingSTUN()
		if len(p) == 0 {
			time.Sleep(6 * time.Second)
			quiesce()

			continue
		}
		for _, d := range p {
			gw.stunReply(d)
		}
	}
	if st, _ := gw.a.GetGatheringState(); st != GatheringStateComplete {
		bad("", "gathering did not complete (state %s)", st)
	}
	nils := 0
	var pubs []Candidate
	for i, line := range gw.candLog {
		if line == "nil" {
			nils++
			if i != len(gw.candLog)-1 {
				bad("", "a candidate was published after the end-of-gathering marker")
			}

			continue
		}
		if _, err := UnmarshalCandidate(line); err != nil {
			bad("", "published candidate does not parse: %v", err)

			continue
		}
		pubs = append(pubs, gw.candObjs[i]) // the live object: a re-parsed mDNS candidate has lost its network type
	}
	if nils != 1 {
		bad("", "a completed gather-once cycle emitted %d end-of-gathering markers", nils)
	}
	// ---- soundness of every published candidate
	typeOn := map[string]bool{}
	for _, t := range cfg.CandTypes {
		typeOn[t] = true
	}
	var deny *net.IPNet
	if cfg.IPFilterDeny != "" {
		_, deny, _ = net.ParseCIDR(cfg.IPFilterDeny)
	}
	accepted := map[string]bool{} // addresses accepted by the interface / IP filters and the loopback setting
	for _, ic := range cfg.Ifaces {
		if !ic.Up || (ic.Loopback && !cfg.Loopback) || (cfg.IfaceFilter != "" && cfg.IfaceFilter != ic.Name) {
			continue
		}
		for _, a := range ic.Addrs {
			ip := net.ParseIP(a)
			if (ip.IsLoopback() && !cfg.Loopback) || (deny != nil && deny.Contains(ip)) {
				continue
			}
			accepted[ip.String()] = true
		}
	}
	got := map[string]int{}
	for _, c := range pubs {
		desc := c.Marshal()
		if !typeOn[c.Type().String()] {
			bad("", "published candidate of a type that is not enabled: %s", desc)
		}
		nt := c.NetworkType().String()
		if !c18has(cfg.NetTypes, func(n string) bool { return n == nt }) {
			finding := ""
			if cfg.UDPMux != "" && c.NetworkType().IsUDP() && c.Type() == CandidateTypeHost {
				finding = "S25"
			}
			bad(finding, "published candidate of network type %s, configured network types are %v: %s", nt, cfg.NetTypes, desc)
		}
		if cfg.MDNS && c.Type() == CandidateTypeHost {
			if !strings.HasSuffix(c.Address(), ".local") {
				bad("", "mDNS gather mode exposes an IP address: %s", desc)
			}

			continue
		}
		ip := net.ParseIP(c.Address())
		if ip == nil {
			bad("", "candidate address is not an IP: %s", desc)

			continue
		}
		if ip.To4() == nil {
			v4compat := true
			for _, b := range ip.To16()[:12] {
				v4compat = v4compat && b == 0
			}
			if ip.IsLinkLocalUnicast() || (ip.To16()[0] == 0xfe && ip.To16()[1]&0xc0 == 0xc0) || (v4compat && !ip.IsLoopback()) {
				bad("", "published a link-local / site-local / IPv4-compatible IPv6 address: %s", desc)
			}
		}
		fromMux := (cfg.UDPMux != "" && c.NetworkType().IsUDP()) || (cfg.TCPMux != "" && c.NetworkType().IsTCP())
		switch c.Type() {
		case CandidateTypeHost:
			tr := "udp"
			if c.NetworkType().IsTCP() {
				tr = "tcp"
			}
			got[tr+" "+ip.String()]++
			if !fromMux {
				if !accepted[ip.String()] {
					bad("", "host candidate on an address the filters / loopback setting / interface state exclude: %s", desc)
				}
				if cfg.PortMin != 0 && (c.Port() < cfg.PortMin || c.Port() > cfg.PortMax) {
					bad("", "host candidate port %d outside the configured range [%d,%d]: %s", c.Port(), cfg.PortMin, cfg.PortMax, desc)
				}
			}
		case CandidateTypeServerReflexive:
			ra := c.RelatedAddress()
			if ra == nil {
				bad("", "srflx candidate without related address: %s", desc)

				break
			}
			if cfg.UDPMuxSrflx != "" {
				// the socket is borrowed from the mux: its base is the mux's listen address, range and filters do not apply
				if got := net.JoinHostPort(ra.Address, fmt.Sprint(ra.Port)); got != cfg.UDPMuxSrflx {
					bad("", "reflexive candidate gathered through UDPMuxSrflx (%s) has base %s: %s", cfg.UDPMuxSrflx, got, desc)
				}

				break
			}
			if cfg.PortMin != 0 && (ra.Port < cfg.PortMin || ra.Port > cfg.PortMax) {
				bad("", "base port %d of a reflexive candidate outside the configured range [%d,%d]: %s", ra.Port, cfg.PortMin, cfg.PortMax, desc)
			}
			if (cfg.IfaceFilter != "" || cfg.IPFilterDeny != "") && !accepted[ra.Address] {
				bad("", "reflexive candidate based on an address the filters exclude: %s", desc)
			}
		default:
		}
	}
	// ---- completeness of the host set
	want := c18oracle(cfg)
	var missing, extra []string
	for k := range want {
		if got[k] == 0 {
			missing = append(missing, k)
		}
	}
	for k, n := range got {
		if !want[k] && !cfg.MDNS {
			extra = append(extra, k)
		}
		if n > 1 {
			bad("", "host candidate %s published %d times", k, n)
		}
	}
	sort.Strings(missing)
	sort.Strings(extra)
	if cfg.MDNS {
		// names hide the addresses: compare counts per transport
		wantN := len(want)
		if mh, _, err := net.SplitHostPort(cfg.UDPMux); err == nil && net.ParseIP(mh).IsUnspecified() {
			// one wildcard socket, one name, one port: the addresses it stands for collapse into a single candidate
			udps := 0
			for k := range want {
				if strings.HasPrefix(k, "udp ") {
					udps++
				}
			}
			if udps > 1 {
				wantN -= udps - 1
			}
		}
		if n := len(pubsOfType(pubs, CandidateTypeHost)); n != wantN {
			finding := ""
			if len(cfg.NetTypes) == 0 && n < len(want) {
				finding = "S9"
			}
			lo6 := 0
			for k := range want {
				if strings.HasSuffix(k, " ::1") {
					lo6++
				}
			}
			if cfg.Loopback && lo6 > 0 && len(want)-n == lo6 {
				finding = "S15"
			}
			bad(finding, "mDNS mode: %d host candidates published, %d eligible (address, transport) combinations %v", n, len(want), keysOfB(want))
		}
	} else if len(missing) > 0 {
		finding := ""
		// classifier S9: empty network-type list and the missing candidates are host (or srflx) candidates
		if len(cfg.NetTypes) == 0 {
			finding = "S9"
		}
		// classifier S15: the only missing address is ::1 with loopback enabled
		if len(missing) > 0 && cfg.Loopback {
			only := true
			for _, m := range missing {
				only = only && strings.HasSuffix(m, " ::1")
			}
			if only {
				finding = "S15"
			}
		}
		bad(finding, "eligible interface addresses without a host candidate: %v (published host candidates: %v)", missing, keysOf(got))
	}
	if len(extra) > 0 && !cfg.MDNS {
		bad("", "host candidates the configuration does not allow: %v", extra)
	}
	v.class = fmt.Sprintf("hosts=%d srflx=%d", len(pubsOfType(pubs, CandidateTypeHost)), len(pubsOfType(pubs, CandidateTypeServerReflexive)))

	return v
}

func pubsOfType(cs []Candidate, t CandidateType) []Candidate {
	var out []Candidate
	for _, c := range cs {
		if c.Type() == t {
			out = append(out, c)
		}
	}

	return out
}

func keysOfB(m map[string]bool) []string {
	var ks []string
	for k := range m {
		ks = append(ks, k)
	}
	sort.Strings(ks)

	return ks
}

func keysOf(m map[string]int) []string {
	var ks []string
	for k := range m {
		ks = append(ks, k)
	}
	sort.Strings(ks)

	return ks
}

func c18configs(quick bool) []gatherCfg {
	names := []string{"eth0", "eth1", "lo", "eth2"}
	var ifaceSets [][]gIface
	if quick {
		for _, set := range [][]string{{"eth0"}, {"eth0", "eth1"}, {"eth0", "lo"}, {"eth1"}, {"eth0", "eth1", "lo", "eth2"}, {}} {
			var s []gIface
			for _, n := range set {
				s = append(s, c18ifaces[n])
			}
			ifaceSets = append(ifaceSets, s)
		}
	} else {
		for mask := 0; mask < 16; mask++ {
			var s []gIface
			for i, n := range names {
				if mask&(1<<i) != 0 {
					s = append(s, c18ifaces[n])
				}
			}
			ifaceSets = append(ifaceSets, s)
		}
	}
	netTypes := [][]string{nil, {"udp4"}, {"udp6"}, {"udp4", "udp6"}, {"tcp4"}, {"udp4", "tcp4"}, {"udp4", "udp6", "tcp4", "tcp6"},
		// lists whose families and transports do not form a full product (S34)
		{"udp4", "tcp6"}, {"udp6", "tcp4"}}
	candTypes := [][]string{{"host"}, {"srflx"}, {"host", "srflx"}}
	type pr struct {
		min, max int
		busy     bool
	}
	ranges := []pr{{0, 0, false}, {5000, 5000, false}, {5000, 5002, false}, {5000, 5001, true}}
	muxes := [][3]string{{"", "", ""}, {"10.0.0.1:7000", "", ""}, {"0.0.0.0:7000", "", ""}, {"", "0.0.0.0:7001", ""}, {"", "10.0.0.1:7001", ""}, {"", "", "10.0.0.1:7002"}}
	var out []gatherCfg
	for _, ifs := range ifaceSets {
		for _, nt := range netTypes {
			for _, ct := range candTypes {
				for _, r := range ranges {
					for _, ifl := range []string{"", "eth0"} {
						for _, ipf := range []string{"", "10.0.0.0/8"} {
							for _, lb := range []bool{false, true} {
								for _, md := range []bool{false, true} {
									for _, mx := range muxes {
										if quick && (r.min == 5000 && r.max == 5002) && (ifl != "" || ipf != "") {
											continue
										}
										cfg := gatherCfg{Ifaces: ifs, NetTypes: nt, CandTypes: ct, PortMin: r.min, PortMax: r.max, BusyPorts: r.busy,
											IfaceFilter: ifl, IPFilterDeny: ipf, Loopback: lb, MDNS: md, UDPMux: mx[0], TCPMux: mx[1], UDPMuxSrflx: mx[2]}
										if mx[2] != "" && (len(ct) == 1 && ct[0] == "host") {
											continue // the srflx mux only matters when reflexive candidates are gathered
										}
										if len(ct) > 1 || ct[0] == "srflx" {
											cfg.URLs = []string{"stun:198.51.100.1:3478"}
										}
										out = append(out, cfg)
									}
								}
							}
						}
					}
				}
			}
		}
	}

	return out
}

func checkC18(c *runCtx) {
	c.assume("interfaces, sockets and the STUN server are those of the fake transport.Net; every STUN request is answered",
		"completeness is stated for host candidates (as in the statement); reflexive candidates are checked for soundness",
		"with a UDP mux the host candidate is borrowed from the mux: filters and port range do not apply to it",
		"mDNS gather mode hides addresses, so host candidates are compared by count")
	cfgs := c18configs(c.quick())
	c.set("configurations", len(cfgs))
	classes := runSharded(c, "c18-configs", func(shard, shards int, sink *shardSink) {
		for i := shard; i < len(cfgs); i += shards {
			cfg := cfgs[i]
			var v c18verdict
			inBubble(c.t, func() { v = c18run(cfg) })
			sink.add("evaluations", 1)
			sink.note(v.class)
			for _, p := range v.problems {
				sink.violation(p.Finding, p.Msg, cfg)
			}
			if i%4001 == 0 {
				sink.Samples = append(sink.Samples, cfg)
			}
		}
	})
	c.set("distinct_nontrivial", len(classes))
	c.set("rule", "every configuration of the product (interface set x network types x candidate types x port range x interface filter x IP filter x loopback x mDNS mode x mux) runs one gathering cycle to completion; distinct = distinct (host count, srflx count) outcomes")

	// ---- cycle control
	p := newVTPool()
	defer p.close()
	dl := c01deadline(c, 240, 1500)
	depth := 6
	if !c.quick() {
		depth = 8
	}
	two := []gIface{{Name: "eth0", Up: true, Addrs: []string{"10.0.0.1"}}, {Name: "eth1", Up: true, Addrs: []string{"192.168.1.2"}}}
	if os.Getenv("VERIF_SHARD") == "" {
		vtSearch(c, p, vtSpec{Name: "cycle control: host", Model: "gather", Finish: true, Cfg: gatherCfg{Ifaces: two, NetTypes: []string{"udp4"}, CandTypes: []string{"host"}, Depth: depth}, Deadline: dl})
		vtSearch(c, p, vtSpec{Name: "cycle control: host + srflx", Model: "gather", Finish: true, Cfg: gatherCfg{Ifaces: gIfacesBasic, NetTypes: []string{"udp4"}, CandTypes: []string{"host", "srflx"}, URLs: []string{"stun:198.51.100.1:3478"}, Depth: depth}, Deadline: dl})
		if os.Getenv("VERIF_VARIANT") == "instr" {
			b := 2
			if !c.quick() {
				b = 3
			}
			csExplore(c, "gather-vs-restart", b+1, dl, nil)
			csExplore(c, "gather-vs-gather", b+1, dl, nil)
			csExplore(c, "gather-vs-gather-vs-restart", b, dl, nil)
			csExplore(c, "gather-srflx-vs-restart", b, dl, nil)
			csExplore(c, "addcandidate-after-cancel", 3, dl, func(zzmc.Failure) string { return "S6" })
		} else {
			c.capHit("built without instrumentation: the Restart race scenarios were not run")
		}
	}
}
