package ice

// C02, "over the same transport protocol": an agent with a UDP and a passive TCP host candidate on one address, a
// peer that uses one IP:port for both transports. A correctly signed success response that carries the transaction
// id of a request sent over one transport and arrives over the other changes nothing.

import (
	"context"
	"encoding/json"
	"fmt"
	"net"
	"sort"
	"strings"
	"testing"
	"testing/synctest"

	"github.com/pion/stun/v3"
)

func c02pairs(a *Agent) string {
	var out []string
	_ = a.loop.Run(a.loop, func(context.Context) {
		for _, p := range a.checklist {
			out = append(out, fmt.Sprintf("%s %s>%s %s nominated=%v", p.Local.NetworkType(), p.Local.addr(), p.Remote.addr(), p.state, p.nominated))
		}
		if sp := a.getSelectedPair(); sp != nil {
			out = append(out, "selected "+sp.Local.NetworkType().String()+" "+sp.Remote.addr().String())
		}
	})
	sort.Strings(out)

	return strings.Join(out, "; ")
}

// c02crossTransport returns the problems found (empty when the property holds) and the number of injections made.
func c02crossTransport(t *testing.T) (problems []string, n int) {
	for _, dir := range []string{"udp-request-answered-over-tcp", "tcp-request-answered-over-udp"} {
		inBubble(t, func() {
			raw, _ := json.Marshal(gatherCfg{Ifaces: gIfacesBasic, NetTypes: []string{"udp4", "tcp4"}, CandTypes: []string{"host"}, TCPMux: "10.0.0.1:7001"})
			gw := newGatherWorld(raw)
			defer gw.Close()
			a := gw.a
			if _, err := a.StartDial(vUfragB, vPwdB); err != nil {
				panic(err)
			}
			if err := a.GatherCandidates(); err != nil {
				panic(err)
			}
			synctest.Wait()
			peerIP, peerPort := "192.0.2.9", 40001
			peerUDP := gw.newSock("peer-udp", peerIP, peerPort, "")
			rc, _ := NewCandidateHost(&CandidateHostConfig{Network: "udp", Address: peerIP, Port: peerPort, Component: 1})
			_ = a.AddRemoteCandidate(rc)
			// the TCP side of the same peer: it connects from the same IP:port and sends an authenticated check
			c, s := newPipe(&net.TCPAddr{IP: net.ParseIP(peerIP).To4(), Port: peerPort}, gw.lis.addr)
			gw.lis.ch <- s
			lu, lp, _ := a.GetLocalUserCredentials()
			req, _ := stun.Build(stun.BindingRequest, stun.TransactionID, stun.NewUsername(lu+":"+vUfragB), AttrControlled(3), PriorityAttr(1845501695),
				stun.NewShortTermIntegrity(lp), stun.Fingerprint)
			_, _ = c.Write(c15frame(req.Raw))
			synctest.Wait()
			if gw.contact == nil {
				panic("hook H1 did not hand over the contact closure")
			}
			gw.contact()
			synctest.Wait()
			// the requests the agent has outstanding: one per transport towards 192.0.2.9:40001
			var udpReq, tcpReq []byte
			gw.mu.Lock()
			for _, d := range gw.sentLog {
				if si := describeSTUN(d.data); si.class == "request" && d.dst == fmt.Sprintf("%s:%d", peerIP, peerPort) {
					udpReq = d.data
				}
			}
			gw.mu.Unlock()
			c.mu.Lock()
			stream := append([]byte{}, c.buf...)
			c.mu.Unlock()
			for len(stream) >= 2 {
				l := int(stream[0])<<8 | int(stream[1])
				if len(stream) < 2+l {
					break
				}
				if si := describeSTUN(stream[2 : 2+l]); si.class == "request" {
					tcpReq = stream[2 : 2+l]
				}
				stream = stream[2+l:]
			}
			if udpReq == nil || tcpReq == nil {
				problems = append(problems, fmt.Sprintf("HARNESS: %s: the agent has no request outstanding on both transports (udp %v, tcp %v; pairs %s)", dir, udpReq != nil, tcpReq != nil, c02pairs(a)))

				return
			}
			answer := func(reqRaw []byte) []byte {
				m := &stun.Message{Raw: append([]byte{}, reqRaw...)}
				if m.Decode() != nil {
					panic("undecodable request")
				}
				resp, err := stun.Build(m, stun.BindingSuccess, &stun.XORMappedAddress{IP: net.ParseIP("10.0.0.1"), Port: 7001},
					stun.NewShortTermIntegrity(vPwdB), stun.Fingerprint)
				if err != nil {
					panic(err)
				}

				return resp.Raw
			}
			before := c02pairs(a)
			n++
			if dir == "udp-request-answered-over-tcp" {
				_, _ = c.Write(c15frame(answer(udpReq)))
			} else {
				var sock *vsock
				for _, lc := range gw.localCands() {
					if lc.NetworkType() == NetworkTypeUDP4 {
						if gs, ok := lc.(*CandidateHost).conn.(*gSock); ok {
							sock = gs.vsock
						}
					}
				}
				if sock == nil {
					problems = append(problems, "HARNESS: no UDP local candidate socket")

					return
				}
				gw.inject(sock, peerUDP.addr.String(), answer(tcpReq))
			}
			synctest.Wait()
			if after := c02pairs(a); after != before {
				problems = append(problems, fmt.Sprintf("%s: a signed success response that arrived over the other transport changed pair state: before [%s] after [%s]", dir, before, after))
			}
			_ = c.Close()
		})
	}

	return problems, n
}

// c07crossTransport (C07, "known remote candidate on the same transport"): the peer's UDP address is first learnt
// from its checks (peer-reflexive) and signalled afterwards; a TCP stream from the same IP:port that never
// authenticated then sends application data. Nothing of it may reach the reader.
func c07crossTransport(t *testing.T) (problems []string, n int) {
	inBubble(t, func() {
		raw, _ := json.Marshal(gatherCfg{Ifaces: gIfacesBasic, NetTypes: []string{"udp4", "tcp4"}, CandTypes: []string{"host"}, TCPMux: "10.0.0.1:7001"})
		gw := newGatherWorld(raw)
		defer gw.Close()
		a := gw.a
		conn, err := a.StartAccept(vUfragB, vPwdB)
		if err != nil {
			panic(err)
		}
		var read [][]byte
		go func() {
			buf := make([]byte, 4096)
			for {
				k, err := conn.Read(buf)
				if err != nil {
					return
				}
				read = append(read, append([]byte{}, buf[:k]...))
			}
		}()
		if err := a.GatherCandidates(); err != nil {
			panic(err)
		}
		synctest.Wait()
		peerIP, peerPort := "192.0.2.9", 40001
		peerUDP := gw.newSock("peer-udp", peerIP, peerPort, "")
		var sock *vsock
		for _, lc := range gw.localCands() {
			if lc.NetworkType() == NetworkTypeUDP4 {
				if gs, ok := lc.(*CandidateHost).conn.(*gSock); ok {
					sock = gs.vsock
				}
			}
		}
		if sock == nil {
			problems = append(problems, "HARNESS: no UDP local candidate socket")

			return
		}
		lu, lp, _ := a.GetLocalUserCredentials()
		check := func(key string) []byte {
			m, _ := stun.Build(stun.BindingRequest, stun.TransactionID, stun.NewUsername(lu+":"+vUfragB), AttrControlling(3), PriorityAttr(1845501695),
				stun.NewShortTermIntegrity(key), stun.Fingerprint)

			return m.Raw
		}
		// 1. an authenticated UDP check from an address nobody signalled: peer-reflexive remote candidate
		gw.inject(sock, peerUDP.addr.String(), check(lp))
		// 2. the same address is signalled: the peer-reflexive candidate is superseded
		rc, _ := NewCandidateHost(&CandidateHostConfig{Network: "udp", Address: peerIP, Port: peerPort, Component: 1})
		_ = a.AddRemoteCandidate(rc)
		synctest.Wait()
		// 3. application data over UDP from that address is let through (the address is known on UDP) ...
		udpData := []byte{0x80, 'u', 'd', 'p', ' ', 'd', 'a', 't', 'a'}
		gw.inject(sock, peerUDP.addr.String(), udpData)
		// 4. ... a TCP stream from the same IP:port names the ufrag but never authenticates, then sends data
		c, s := newPipe(&net.TCPAddr{IP: net.ParseIP(peerIP).To4(), Port: peerPort}, gw.lis.addr)
		gw.lis.ch <- s
		_, _ = c.Write(c15frame(check("not the password, not the password")))
		synctest.Wait()
		tcpData := []byte{0x80, 't', 'c', 'p', ' ', 'd', 'a', 't', 'a'}
		_, _ = c.Write(c15frame(tcpData))
		synctest.Wait()
		n = 2
		gotUDP := false
		for _, r := range read {
			if string(r) == string(tcpData) {
				problems = append(problems, "data from a TCP stream whose address is a known remote candidate on UDP only reached the reader")
			}
			gotUDP = gotUDP || string(r) == string(udpData)
		}
		if !gotUDP {
			problems = append(problems, "data over UDP from the (superseded peer-reflexive, now signalled) remote candidate did not reach the reader")
		}
		_ = c.Close()
	})

	return problems, n
}
