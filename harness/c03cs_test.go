package ice

// C03 / C20, concurrent part: the role can change under an application call. RenominateCandidate is issued by the
// application while an authenticated request that makes the agent lose a role conflict is on its socket; under
// every schedule a nomination leaves the agent only while it is controlling.

import (
	"context"
	"encoding/json"
	"fmt"
	"os"
	"testing/synctest"
	"time"

	"github.com/pion/ice/v4/internal/zzmc"
)

func init() {
	csScenarios["renominate-vs-role-conflict"] = c03renominateRace
}

func c03renominateRace() zzmc.Scenario {
	return zzmc.Scenario{
		Name:     "renominate-vs-role-conflict",
		Focus:    []string{"taskloop.go", "candidate_base.go"},
		MaxSteps: 6000,
		TimeStep: time.Millisecond,
		MaxAdv:   400,
		Setup: func(s *zzmc.Sched) func(string) (string, string) {
			raw, _ := json.Marshal(soloCfg{Role: "controlling", Renom: true, Locals: 1, Remotes: 1, Tie: 5})
			sw := newSoloWorld(raw)
			sw.onDeliver = nil
			sw.establish()
			a := sw.x.agent
			fail := ""
			nominations := 0
			sw.onSend = func(sk *vsock, d dgram) {
				if sk.name[0] != 'a' {
					return
				}
				si := describeSTUN(d.data)
				if si.class == "request" && (si.uc || si.nom >= 0) {
					nominations++
					if !a.isControlling.Load() {
						fail += "NOMINATION-SENT-BY-A-CONTROLLED-AGENT "
					}
				}
			}
			sp := a.getSelectedPair()
			local, remote := sp.Local, sp.Remote
			// the peer claims the controlling role with a larger tie-breaker: X loses and becomes controlled
			conflict := sw.peerRequest(peerReqOpts{sameRole: true, tie: 9, tieSet: true, nom: -1})
			var renomErr error
			renomDone := false
			s.Go("APP", func() {
				renomErr = a.RenominateCandidate(local, remote)
				renomDone = true
			})
			s.Go("IN", func() { sw.x.socks[0].in <- rxPacket{sw.remotes[0].addr.String(), conflict} })

			return func(dead string) (string, string) {
				settle()
				if dead == "" {
					if !renomDone {
						fail += "RENOMINATE-DID-NOT-RETURN "
					}
					if a.isControlling.Load() {
						fail += "ROLE-CONFLICT-NOT-RESOLVED "
					}
					if renomErr == nil && nominations == 0 {
						fail += "RENOMINATE-SUCCEEDED-WITHOUT-A-NOMINATION "
					}
					if renomErr != nil && nominations != 0 {
						fail += "RENOMINATE-FAILED-BUT-NOMINATED "
					}
				}
				_ = a.Close()

				return fmt.Sprintf("err=%v nominations=%d", renomErr, nominations), fail
			}
		},
	}
}

func checkRenominateRace(c *runCtx, dl time.Time) {
	if os.Getenv("VERIF_VARIANT") != "instr" {
		c.capHit("built without instrumentation: the renomination / role-conflict interleavings were not run")

		return
	}
	b := 2
	if !c.quick() {
		b = 3
	}
	csExplore(c, "renominate-vs-role-conflict", b, dl, nil)
}

// ---------------------------------------------------------------- C10: application data arriving while Restart closes the candidates

func init() {
	csScenarios["api-restart-vs-data"] = func() zzmc.Scenario { return c10restartVsData(false) }
	csScenarios["api-close-vs-data"] = func() zzmc.Scenario { return c10restartVsData(true) }
}

// c10restartVsData: the first application datagram from a known remote address is on a candidate's socket (its
// receive goroutine hands the validation to the task loop) while Restart — or Close — removes that candidate inside a
// task and waits for the receive goroutine. Every call returns.
func c10restartVsData(closing bool) zzmc.Scenario {
	name := "api-restart-vs-data"
	if closing {
		name = "api-close-vs-data"
	}

	return zzmc.Scenario{
		Name:     name,
		Focus:    []string{"taskloop.go", "candidate_base.go"},
		MaxSteps: 4000,
		Setup: func(s *zzmc.Sched) func(string) (string, string) {
			w := newWorld()
			a, err := NewAgentWithOptions(WithNet(vNet{}), WithMulticastDNSMode(MulticastDNSModeDisabled), WithNetworkTypes([]NetworkType{NetworkTypeUDP4}),
				WithCandidateTypes([]CandidateType{CandidateTypeHost}), WithLocalCredentials(vUfragA, vPwdA), WithLoggerFactory(nopFactory{}))
			if err != nil {
				panic(err)
			}
			sock := w.newSock("a0", "10.0.0.1", 1000, "")
			w.newSock("p0", "10.0.1.1", 2000, "")
			c, _ := NewCandidateHost(&CandidateHostConfig{Network: "udp", Address: "10.0.0.1", Port: 1000, Component: 1})
			if err := a.addCandidate(context.Background(), c, sock); err != nil {
				panic(err)
			}
			rc, _ := NewCandidateHost(&CandidateHostConfig{Network: "udp", Address: "10.0.1.1", Port: 2000, Component: 1})
			_ = a.loop.Run(a.loop, func(context.Context) { a.addRemoteCandidate(rc) })
			if _, err := a.StartAccept(vUfragB, vPwdB); err != nil {
				panic(err)
			}
			fail := ""
			done := false
			var rerr error
			s.Go("IN", func() { sock.in <- rxPacket{"10.0.1.1:2000", []byte{0x80, 'd', 'a', 't', 'a'}} })
			s.Go("R", func() {
				if closing {
					rerr = a.Close()
				} else {
					rerr = a.Restart("", "")
				}
				done = true
			})

			return func(dead string) (string, string) {
				if dead != "" {
					_ = sock.Close()
				}
				synctest.Wait()
				if !done {
					fail += "CALL-DID-NOT-RETURN(the candidate's receive goroutine and the task that closes it wait for each other) "
				} else if rerr != nil {
					fail += "CALL-RETURNED-" + rerr.Error() + " "
				}
				_ = a.Close()

				return fmt.Sprintf("done=%v", done), fail
			}
		},
	}
}
