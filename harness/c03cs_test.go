package ice

// C03 / C20, concurrent part: the role can change under an application call. RenominateCandidate is issued by the
// application while an authenticated request that makes the agent lose a role conflict is on its socket; under
// every schedule a nomination leaves the agent only while it is controlling.

import (
	"encoding/json"
	"fmt"
	"os"
	"time"

	"github.com/pion/ice/v4/internal/zzmc"
)

func init() {
	csScenarios["renominate-vs-role-conflict"] = c03renominateRace
}

func c03renominateRace() zzmc.Scenario {
	return zzmc.Scenario{
		Name:     "renominate-vs-role-conflict",
		Focus:    []string{"taskloop.go", "candidate_base.go"},
		MaxSteps: 6000,
		TimeStep: time.Millisecond,
		MaxAdv:   400,
		Setup: func(s *zzmc.Sched) func(string) (string, string) {
			raw, _ := json.Marshal(soloCfg{Role: "controlling", Renom: true, Locals: 1, Remotes: 1, Tie: 5})
			sw := newSoloWorld(raw)
			sw.onDeliver = nil
			sw.establish()
			a := sw.x.agent
			fail := ""
			nominations := 0
			sw.onSend = func(sk *vsock, d dgram) {
				if sk.name[0] != 'a' {
					return
				}
				si := describeSTUN(d.data)
				if si.class == "request" && (si.uc || si.nom >= 0) {
					nominations++
					if !a.isControlling.Load() {
						fail += "NOMINATION-SENT-BY-A-CONTROLLED-AGENT "
					}
				}
			}
			sp := a.getSelectedPair()
			local, remote := sp.Local, sp.Remote
			// the peer claims the controlling role with a larger tie-breaker: X loses and becomes controlled
			conflict := sw.peerRequest(peerReqOpts{sameRole: true, tie: 9, tieSet: true, nom: -1})
			var renomErr error
			renomDone := false
			s.Go("APP", func() {
				renomErr = a.RenominateCandidate(local, remote)
				renomDone = true
			})
			s.Go("IN", func() { sw.x.socks[0].in <- rxPacket{sw.remotes[0].addr.String(), conflict} })

			return func(dead string) (string, string) {
				settle()
				if dead == "" {
					if !renomDone {
						fail += "RENOMINATE-DID-NOT-RETURN "
					}
					if a.isControlling.Load() {
						fail += "ROLE-CONFLICT-NOT-RESOLVED "
					}
					if renomErr == nil && nominations == 0 {
						fail += "RENOMINATE-SUCCEEDED-WITHOUT-A-NOMINATION "
					}
					if renomErr != nil && nominations != 0 {
						fail += "RENOMINATE-FAILED-BUT-NOMINATED "
					}
				}
				_ = a.Close()

				return fmt.Sprintf("err=%v nominations=%d", renomErr, nominations), fail
			}
		},
	}
}

func checkRenominateRace(c *runCtx, dl time.Time) {
	if os.Getenv("VERIF_VARIANT") != "instr" {
		c.capHit("built without instrumentation: the renomination / role-conflict interleavings were not run")

		return
	}
	b := 2
	if !c.quick() {
		b = 3
	}
	csExplore(c, "renominate-vs-role-conflict", b, dl, nil)
}
