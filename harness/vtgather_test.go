package ice

// gatherWorld: one real Agent that gathers through a fake transport.Net. Every socket, stream and
// relay allocation the agent acquires is tallied (opens / effective closes / generation); STUN and
// TURN completions are events of the harness.

import (
	"context"
	"encoding/json"
	"errors"
	"fmt"
	"io"
	"net"
	"sort"
	"strconv"
	"strings"
	"sync"
	"syscall"
	"time"

	"testing/synctest"

	"github.com/pion/ice/v4/internal/zzmc"
	"github.com/pion/stun/v3"
	"github.com/pion/transport/v4"
	"github.com/pion/turn/v5"
)

type gIface struct {
	Name     string   `json:"name"`
	Up       bool     `json:"up"`
	Loopback bool     `json:"loopback,omitempty"`
	Addrs    []string `json:"addrs"`
}

type gatherCfg struct {
	Ifaces       []gIface `json:"ifaces"`
	NetTypes     []string `json:"net_types"` // "udp4","udp6","tcp4","tcp6"; empty = not configured (documented: all)
	CandTypes    []string `json:"cand_types"`
	URLs         []string `json:"urls,omitempty"`
	PortMin      int      `json:"port_min,omitempty"`
	PortMax      int      `json:"port_max,omitempty"`
	BusyPorts    bool     `json:"busy_ports,omitempty"` // every port of the configured range is refused
	IfaceFilter  string   `json:"iface_filter,omitempty"`
	IPFilterDeny string   `json:"ip_filter_deny,omitempty"` // CIDR
	Loopback     bool     `json:"loopback,omitempty"`
	MDNS         bool     `json:"mdns,omitempty"` // query-and-gather
	UDPMux       string   `json:"udp_mux,omitempty"` // listen address of a UDPMuxDefault
	TCPMux       string   `json:"tcp_mux,omitempty"` // listen address of a TCPMuxDefault
	UDPMuxSrflx  string   `json:"udp_mux_srflx,omitempty"`
	Rewrite      []AddressRewriteRule `json:"rewrite,omitempty"`
	// RewriteRaw is compiled and installed directly, as the repository's own tests do: the public option refuses
	// a rule without externals, which the rule documentation (and C19) describe
	RewriteRaw []AddressRewriteRule `json:"rewrite_raw,omitempty"`
	Depth        int      `json:"depth,omitempty"`
	TCPReadBuf int  `json:"tcp_read_buf,omitempty"` // packets a TCPMux connection queues for its reader (0 = 8)
	NoStart    bool `json:"no_start,omitempty"`     // (tcpclose model) the agent is not started: its candidates do not read yet
	// NoFairCompletion: the configuration contains an exchange without a timeout of its own (a TLS handshake with a
	// TURN server that never answers ends only when the cycle is cancelled): "eventually complete" is not claimed
	NoFairCompletion bool `json:"no_fair_completion,omitempty"`
	CloseErr     bool     `json:"close_err,omitempty"` // sockets and relayed connections report an error from Close (after closing)
	Start        bool     `json:"start,omitempty"` // StartDial before the first event (needed for the Failed state)
}

type gResource struct {
	id      int
	kind    string // "udp", "tcpstream", "turnclient", "relay", "muxref"
	tag     string // who opened it (listen address / server)
	gen     int
	closes  int
	closeAt []int
}

type gSock struct {
	*vsock
	res      *gResource
	fn       *fakeNet
	closeErr error // fault: Close releases the socket but reports an error
}

func (s *gSock) Close() error {
	s.fn.noteClose(s.res)
	_ = s.vsock.Close()

	return s.closeErr
}
func (s *gSock) RemoteAddr() net.Addr                   { return nil }
func (s *gSock) SetReadBuffer(int) error                { return nil }
func (s *gSock) SetWriteBuffer(int) error               { return nil }
func (s *gSock) Read([]byte) (int, error)               { return 0, errors.New("not connected") } //nolint:err113
func (s *gSock) Write([]byte) (int, error)              { return 0, errors.New("not connected") } //nolint:err113
func (s *gSock) ReadFromUDP(b []byte) (int, *net.UDPAddr, error) {
	n, a, err := s.ReadFrom(b)
	ua, _ := a.(*net.UDPAddr)

	return n, ua, err
}
func (s *gSock) ReadMsgUDP(b, _ []byte) (int, int, int, *net.UDPAddr, error) {
	n, a, err := s.ReadFromUDP(b)

	return n, 0, 0, a, err
}
func (s *gSock) WriteToUDP(b []byte, a *net.UDPAddr) (int, error) { return s.WriteTo(b, a) }
func (s *gSock) WriteMsgUDP(b, _ []byte, a *net.UDPAddr) (int, int, error) {
	n, err := s.WriteTo(b, a)

	return n, 0, err
}

type fakeNet struct {
	transport.Net
	gw        *gatherWorld
	mu        sync.Mutex
	ifaces    []*transport.Interface
	resources []*gResource
	perIP     map[string]int
	failNext  map[string]int // bind address (role+ip) -> number of listen calls that fail next
	busy      func(port int) bool
	gen       int
}

func (f *fakeNet) Interfaces() ([]*transport.Interface, error) { return f.ifaces, nil }

func (f *fakeNet) newRes(kind, tag string) *gResource {
	r := &gResource{id: len(f.resources), kind: kind, tag: tag, gen: f.gen}
	f.resources = append(f.resources, r)

	return r
}

func (f *fakeNet) noteClose(r *gResource) {
	f.mu.Lock()
	r.closes++
	f.mu.Unlock()
}

func (f *fakeNet) ResolveUDPAddr(network, address string) (*net.UDPAddr, error) {
	return net.ResolveUDPAddr(network, address)
}

func (f *fakeNet) ResolveTCPAddr(network, address string) (*net.TCPAddr, error) {
	return net.ResolveTCPAddr(network, address)
}

func (f *fakeNet) ListenUDP(network string, laddr *net.UDPAddr) (transport.UDPConn, error) {
	return f.listen("u", network, laddr)
}

// listen: role is part of the socket's name and port space, so that names do not depend on which
// gatherer goroutine happens to ask first ("u" = ListenUDP: host / srflx; "p" = ListenPacket: TURN).
func (f *fakeNet) listen(role, network string, laddr *net.UDPAddr) (transport.UDPConn, error) {
	f.mu.Lock()
	defer f.mu.Unlock()
	ip := laddr.IP
	if ip == nil {
		ip = net.IPv4zero
		if strings.HasSuffix(network, "6") {
			ip = net.IPv6unspecified
		}
	}
	if f.failNext[role+ip.String()] > 0 {
		f.failNext[role+ip.String()]--

		return nil, &net.OpError{Op: "listen", Net: network, Err: syscall.EADDRNOTAVAIL}
	}
	port := laddr.Port
	if port == 0 {
		// deterministic per bind address, independent of which gatherer asks first
		f.perIP[role+ip.String()]++
		port = 40000 + f.perIP[role+ip.String()] + 100*f.gen
		if role == "p" {
			port += 2000
		}
	} else if f.busy != nil && f.busy(port) {
		return nil, &net.OpError{Op: "listen", Net: network, Err: syscall.EADDRINUSE}
	}
	name := fmt.Sprintf("%s-%s-%d", role, ip.String(), port)
	vs := f.gw.newSock(name, ip.String(), port, "")
	vs.addr.Zone = laddr.Zone

	kind := "udp"
	if role == "p" {
		kind = "udp-turn"
	}

	gs := &gSock{vsock: vs, res: f.newRes(kind, fmt.Sprintf("%s %s", network, net.JoinHostPort(ip.String(), strconv.Itoa(laddr.Port)))), fn: f}
	if f.gw.cfg.CloseErr {
		gs.closeErr = errors.New("injected: socket Close failed") //nolint:err113
	}

	return gs, nil
}

func (f *fakeNet) ListenPacket(network, address string) (net.PacketConn, error) {
	a, err := net.ResolveUDPAddr(network, address)
	if err != nil {
		return nil, err
	}

	return f.listen("p", network, a)
}

type gStream struct {
	*pipeEnd
	res *gResource
	fn  *fakeNet
}

func (s *gStream) Close() error {
	s.fn.noteClose(s.res)

	return s.pipeEnd.Close()
}
func (s *gStream) CloseRead() error                   { return nil }
func (s *gStream) CloseWrite() error                  { return nil }
func (s *gStream) ReadFrom(io.Reader) (int64, error) { return 0, nil }
func (s *gStream) SetLinger(int) error                { return nil }
func (s *gStream) SetKeepAlive(bool) error            { return nil }
func (s *gStream) SetKeepAlivePeriod(time.Duration) error { return nil }
func (s *gStream) SetNoDelay(bool) error              { return nil }
func (s *gStream) SetWriteBuffer(int) error           { return nil }
func (s *gStream) SetReadBuffer(int) error            { return nil }

// ---------------------------------------------------------------- fake TURN client

type fakeTurn struct {
	gw     *gatherWorld
	res    *gResource
	server string
	reply  chan string // "ok" | "fail"
	idx    int
	conn   net.PacketConn
	done   chan struct{}
	once   sync.Once
}

// Listen starts the client's reader goroutine, as the real client does: it lives until the client is closed or
// the socket to the server is (a client that is never closed on a socket that is never closed is a leaked goroutine).
func (t *fakeTurn) Listen() error {
	var sockClosed <-chan struct{}
	if gs, ok := t.conn.(*gSock); ok {
		sockClosed = gs.closed
	}
	go func() {
		select {
		case <-t.done:
		case <-sockClosed:
		}
	}()

	return nil
}
func (t *fakeTurn) Allocate() (net.PacketConn, error) {
	timer := time.NewTimer(8 * time.Second) // the real client gives up after its retransmissions
	defer timer.Stop()
	select {
	case r := <-t.reply:
		if r != "ok" {
			return nil, errors.New("allocation refused") //nolint:err113
		}
	case <-timer.C:
		return nil, errors.New("allocation timed out") //nolint:err113
	}
	fn := t.gw.fn
	fn.mu.Lock()
	defer fn.mu.Unlock()
	name := fmt.Sprintf("relay%d", t.idx)
	vs := t.gw.newSock(name, "198.51.100.7", 50000+t.idx+100*fn.gen, "")

	gs := &gSock{vsock: vs, res: fn.newRes("relay", t.server), fn: fn}
	if t.gw.cfg.CloseErr {
		gs.closeErr = errors.New("injected: relayed connection Close failed (refresh could not be sent)") //nolint:err113
	}

	return gs, nil
}
func (t *fakeTurn) Close() {
	t.once.Do(func() { close(t.done) })
	t.gw.fn.noteClose(t.res)
}

// ---------------------------------------------------------------- world

type gatherWorld struct {
	*world
	cfg      gatherCfg
	fn       *fakeNet
	a        *Agent
	candLog  []string // OnCandidate stream ("nil" for the end-of-gathering marker)
	candObjs []Candidate
	candGen  []int    // generation (number of restarts) at delivery time
	states   []ConnectionState
	problems []vtProblem
	turns    []*fakeTurn
	udpMux   *UDPMuxDefault
	tcpMux   *TCPMuxDefault
	srflxMux *UniversalUDPMuxDefault
	muxSock  *gSock
	ufrags   []string // local ufrag of every generation seen so far (index = generation)
	lis      *fakeLis
	gathers  int
	closed   bool
	strict   bool
	contact  func()
	cmu      sync.Mutex
}

func (gw *gatherWorld) problem(finding, format string, args ...any) {
	gw.problems = append(gw.problems, vtProblem{finding, fmt.Sprintf(format, args...)})
}

func parseNetTypes(ss []string) []NetworkType {
	var out []NetworkType
	for _, s := range ss {
		switch s {
		case "udp4":
			out = append(out, NetworkTypeUDP4)
		case "udp6":
			out = append(out, NetworkTypeUDP6)
		case "tcp4":
			out = append(out, NetworkTypeTCP4)
		case "tcp6":
			out = append(out, NetworkTypeTCP6)
		}
	}

	return out
}

func newGatherWorld(raw json.RawMessage) *gatherWorld {
	gw := &gatherWorld{world: newWorld()}
	if err := json.Unmarshal(raw, &gw.cfg); err != nil {
		panic(err)
	}
	cfg := gw.cfg
	gw.fn = &fakeNet{gw: gw, perIP: map[string]int{}, failNext: map[string]int{}}
	if cfg.BusyPorts {
		gw.fn.busy = func(p int) bool { return p >= cfg.PortMin && p <= cfg.PortMax }
	}
	for i, ic := range cfg.Ifaces {
		flags := net.Flags(0)
		if ic.Up {
			flags |= net.FlagUp
		}
		if ic.Loopback {
			flags |= net.FlagLoopback
		}
		ifc := transport.NewInterface(net.Interface{Index: i + 1, MTU: 1500, Name: ic.Name, Flags: flags})
		for _, a := range ic.Addrs {
			ip := net.ParseIP(a)
			bits := 128
			if ip.To4() != nil {
				bits = 32
			}
			ifc.AddAddress(&net.IPNet{IP: ip, Mask: net.CIDRMask(bits/2, bits)})
		}
		gw.fn.ifaces = append(gw.fn.ifaces, ifc)
	}
	// the STUN / TURN servers are plain sockets of the harness
	gw.newSock("stun", "198.51.100.1", 3478, "")
	gw.newSock("stun6", "2001:db8:ffff::1", 3478, "")
	VerifTakeContact = func(_ *Agent, f func()) bool {
		gw.cmu.Lock()
		gw.contact = f
		gw.cmu.Unlock()

		return true
	}
	opts := []AgentOption{WithNet(gw.fn), WithLocalCredentials(vUfragA, vPwdA), WithLoggerFactory(nopFactory{})}
	if cfg.MDNS {
		opts = append(opts, WithMulticastDNSMode(MulticastDNSModeQueryAndGather), WithMulticastDNSHostName("verif-host.local"))
	} else {
		opts = append(opts, WithMulticastDNSMode(MulticastDNSModeDisabled))
	}
	if len(cfg.NetTypes) > 0 {
		opts = append(opts, WithNetworkTypes(parseNetTypes(cfg.NetTypes)))
	}
	var cts []CandidateType
	for _, s := range cfg.CandTypes {
		switch s {
		case "host":
			cts = append(cts, CandidateTypeHost)
		case "srflx":
			cts = append(cts, CandidateTypeServerReflexive)
		case "relay":
			cts = append(cts, CandidateTypeRelay)
		}
	}
	opts = append(opts, WithCandidateTypes(cts))
	var urls []*stun.URI
	for _, u := range cfg.URLs {
		uri, err := stun.ParseURI(u)
		if err != nil {
			panic(err)
		}
		if uri.Scheme == stun.SchemeTypeTURN || uri.Scheme == stun.SchemeTypeTURNS {
			uri.Username, uri.Password = "user", "pass"
		}
		urls = append(urls, uri)
	}
	if len(urls) > 0 {
		opts = append(opts, WithUrls(urls))
	}
	if cfg.PortMin != 0 || cfg.PortMax != 0 {
		opts = append(opts, WithPortRange(uint16(cfg.PortMin), uint16(cfg.PortMax))) //nolint:gosec
	}
	if cfg.IfaceFilter != "" {
		only := cfg.IfaceFilter
		opts = append(opts, WithInterfaceFilter(func(n string) bool { return n == only }))
	}
	if cfg.IPFilterDeny != "" {
		_, deny, err := net.ParseCIDR(cfg.IPFilterDeny)
		if err != nil {
			panic(err)
		}
		opts = append(opts, WithIPFilter(func(ip net.IP) bool { return !deny.Contains(ip) }))
	}
	if cfg.Loopback {
		opts = append(opts, WithIncludeLoopback())
	}
	if len(cfg.Rewrite) > 0 {
		opts = append(opts, WithAddressRewriteRules(cfg.Rewrite...))
	}
	if cfg.UDPMux != "" {
		a, _ := net.ResolveUDPAddr("udp", cfg.UDPMux)
		c, err := gw.fn.ListenUDP("udp", a)
		if err != nil {
			panic(err)
		}
		gw.muxSock = c.(*gSock) //nolint:forcetypeassert
		gw.muxSock.res.kind = "muxsocket"
		gw.udpMux = NewUDPMuxDefault(UDPMuxParams{UDPConn: c, Logger: nopLogger{}, Net: gw.fn})
		opts = append(opts, WithUDPMux(gw.udpMux))
	}
	if cfg.UDPMuxSrflx != "" {
		a, _ := net.ResolveUDPAddr("udp", cfg.UDPMuxSrflx)
		c, err := gw.fn.ListenUDP("udp", a)
		if err != nil {
			panic(err)
		}
		c.(*gSock).res.kind = "muxsocket" //nolint:forcetypeassert
		gw.srflxMux = NewUniversalUDPMuxDefault(UniversalUDPMuxParams{UDPConn: c, Logger: nopLogger{}, Net: gw.fn})
		opts = append(opts, WithUDPMuxSrflx(gw.srflxMux))
	}
	if cfg.TCPMux != "" {
		a, _ := net.ResolveTCPAddr("tcp", cfg.TCPMux)
		gw.lis = &fakeLis{ch: make(chan net.Conn), closed: make(chan struct{}), addr: a}
		rb := 8
		if cfg.TCPReadBuf > 0 {
			rb = cfg.TCPReadBuf
		}
		gw.tcpMux = NewTCPMuxDefault(TCPMuxParams{Listener: gw.lis, Logger: nopLogger{}, ReadBufferSize: rb})
		opts = append(opts, WithTCPMux(gw.tcpMux))
	}
	a, err := NewAgentWithOptions(opts...)
	if err != nil {
		panic(fmt.Sprintf("agent construction failed: %v (config %s)", err, raw))
	}
	gw.a = a
	if len(cfg.RewriteRaw) > 0 {
		m, err := newAddressRewriteMapper(cfg.RewriteRaw)
		if err != nil {
			panic(fmt.Sprintf("rewrite rules do not compile: %v", err))
		}
		a.addressRewriteMapper = m
	}
	gw.noteUfrag()
	a.turnClientFactory = func(c *turn.ClientConfig) (turnClient, error) {
		gw.fn.mu.Lock()
		defer gw.fn.mu.Unlock()
		t := &fakeTurn{gw: gw, server: c.TURNServerAddr, reply: make(chan string, 1), idx: len(gw.turns), conn: c.Conn, done: make(chan struct{})}
		t.res = gw.fn.newRes("turnclient", c.TURNServerAddr)
		gw.turns = append(gw.turns, t)

		return t, nil
	}
	_ = a.OnCandidate(func(c Candidate) {
		if c == nil {
			gw.candLog = append(gw.candLog, "nil")
		} else {
			gw.candLog = append(gw.candLog, c.Marshal())
		}
		gw.candObjs = append(gw.candObjs, c)
		gw.candGen = append(gw.candGen, gw.fn.gen)
	})
	_ = a.OnConnectionStateChange(func(s ConnectionState) { gw.states = append(gw.states, s) })
	quiesce()
	if cfg.Start {
		if _, err := a.StartDial(vUfragB, vPwdB); err != nil {
			panic(err)
		}
		quiesce()
	}

	return gw
}

func (f *fakeNet) DialTCP(network string, _, raddr *net.TCPAddr) (transport.TCPConn, error) {
	f.mu.Lock()
	defer f.mu.Unlock()
	if f.failNext["tcp"] > 0 {
		f.failNext["tcp"]--

		return nil, &net.OpError{Op: "dial", Net: network, Err: syscall.ECONNREFUSED}
	}
	f.perIP["tcp"]++
	c, _ := newPipe(&net.TCPAddr{IP: net.ParseIP("10.0.0.1"), Port: 41000 + f.perIP["tcp"]}, raddr)

	return &gStream{pipeEnd: c, res: f.newRes("tcpstream", raddr.String()), fn: f}, nil
}

// pendingSTUN lists the gatherer's Binding requests waiting at the STUN server, named by (server, local socket).
func (gw *gatherWorld) pendingSTUN() []dgram {
	var out []dgram
	for _, d := range gw.inflight {
		if si := describeSTUN(d.data); si.isSTUN && si.class == "request" && si.user == "" {
			out = append(out, d)
		}
	}
	sort.Slice(out, func(i, j int) bool { return out[i].src+out[i].dst < out[j].src+out[j].dst })

	return out
}

// stunReply answers request d with a reflexive address.
func (gw *gatherWorld) stunReply(d dgram) {
	if i := gw.find(d.seq); i >= 0 {
		gw.inflight = append(gw.inflight[:i:i], gw.inflight[i+1:]...)
	}
	gw.answerSTUN(d)
	quiesce()
}

// answerSTUN builds the success response for request d and hands it to the requesting socket.
func (gw *gatherWorld) answerSTUN(d dgram) {
	req := &stun.Message{Raw: append([]byte{}, d.data...)}
	if err := req.Decode(); err != nil {
		panic(err)
	}
	_, p, _ := net.SplitHostPort(d.src)
	port, _ := strconv.Atoi(p)
	ext := net.ParseIP("203.0.113.77")
	if strings.Contains(d.dst, "[") {
		ext = net.ParseIP("2001:db8:e::77")
	}
	out, err := stun.Build(req, stun.BindingSuccess, &stun.XORMappedAddress{IP: ext, Port: port + 1000}, stun.Fingerprint)
	if err != nil {
		panic(err)
	}
	if s, ok := gw.socks[d.srcSock]; ok && !s.isClosed() {
		s.in <- rxPacket{d.dst, out.Raw}
	}
}

// openResources lists resources that are open now (closed zero times), optionally of one generation.
func (gw *gatherWorld) openResources(gen int) []string {
	var out []string
	refs := gw.muxRefs()
	var keys []string
	for k := range refs {
		keys = append(keys, k)
	}
	sort.Strings(keys)
	gw.fn.mu.Lock()
	defer gw.fn.mu.Unlock()
	for _, r := range gw.fn.resources {
		if r.closes == 0 && r.kind != "muxsocket" && (gen < 0 || r.gen == gen) {
			out = append(out, fmt.Sprintf("%s#%d(%s, generation %d)", r.kind, r.id, r.tag, r.gen))
		}
	}
	for _, k := range keys {
		if g := refs[k]; g != -2 && (gen < 0 || g == gen) {
			out = append(out, fmt.Sprintf("%s still registered in the mux (generation %d)", k, g))
		}
	}

	return out
}

func (gw *gatherWorld) Close() {
	if !gw.closed {
		if err := gw.a.Close(); err != nil && !gw.cfg.CloseErr {
			gw.problem("", "Close returned %v", err)
		}
		gw.closed = true
	}
	// abandoned exchanges of superseded cycles (a TURN allocation nobody answers) end on their own timeouts
	if !gw.strict {
		time.Sleep(30 * time.Second)
		quiesce()
	}
	if gw.udpMux != nil {
		_ = gw.udpMux.Close()
	}
	if gw.tcpMux != nil {
		_ = gw.tcpMux.Close()
	}
	if gw.srflxMux != nil {
		_ = gw.srflxMux.Close()
	}
	quiesce()
}

// noteUfrag records the local ufrag of the current generation (mux registrations are keyed by it).
func (gw *gatherWorld) noteUfrag() {
	gw.fn.mu.Lock()
	gen := gw.fn.gen
	gw.fn.mu.Unlock()
	for len(gw.ufrags) <= gen {
		gw.ufrags = append(gw.ufrags, "")
	}
	if gw.ufrags[gen] == "" {
		gw.ufrags[gen] = gw.a.localUfrag
	}
}

// muxRefs lists the connections still registered in the muxes the agent borrows from, as "kind(key)" -> generation.
func (gw *gatherWorld) muxRefs() map[string]int {
	gw.noteUfrag()
	out := map[string]int{}
	genOf := func(key string) int {
		for g := len(gw.ufrags) - 1; g >= 0; g-- {
			if gw.ufrags[g] != "" && strings.HasPrefix(key, gw.ufrags[g]) {
				return g
			}
		}

		return -2 // not a key of this agent
	}
	name := func(key string) string { // the ufrag is random: name the registration by its generation
		if g := genOf(key); g >= 0 {
			return fmt.Sprintf("<ufrag of generation %d>%s", g, strings.TrimPrefix(key, gw.ufrags[g]))
		}

		return key
	}
	udp := func(kind string, m *UDPMuxDefault) {
		if m == nil {
			return
		}
		m.mu.Lock()
		defer m.mu.Unlock()
		for u, c := range m.connsIPv4 {
			if !c.isClosed() {
				out[kind+"4("+name(u)+")"] = genOf(u)
			}
		}
		for u, c := range m.connsIPv6 {
			if !c.isClosed() {
				out[kind+"6("+name(u)+")"] = genOf(u)
			}
		}
	}
	udp("udpmuxconn", gw.udpMux)
	if gw.srflxMux != nil {
		udp("srflxmuxconn", gw.srflxMux.UDPMuxDefault)
	}
	if m := gw.tcpMux; m != nil {
		m.mu.Lock()
		for u := range m.connsIPv4 {
			out["tcpmuxconn4("+name(u)+")"] = genOf(u)
		}
		for u := range m.connsIPv6 {
			out["tcpmuxconn6("+name(u)+")"] = genOf(u)
		}
		m.mu.Unlock()
	}

	return out
}

func (gw *gatherWorld) localCands() []Candidate {
	var out []Candidate
	_ = gw.a.loop.Run(gw.a.loop, func(context.Context) {
		for _, s := range gw.a.localCandidates {
			out = append(out, s...)
		}
	})

	return out
}

// quiesce waits until every goroutine of the bubble is durably blocked. Under the CS scheduler the
// scheduler itself does that between steps, and a second Wait is not allowed.
func quiesce() {
	if !zzmc.Active() {
		synctest.Wait()
	}
}
