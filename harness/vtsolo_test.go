package ice

// soloWorld: one real Agent X against a harness-scripted peer (the peer's sockets are plain fake sockets
// whose traffic the harness reads and writes itself).

import (
	"context"
	"encoding/json"
	"fmt"
	"net"
	"sort"
	"strconv"
	"strings"
	"sync"
	"time"

	"github.com/pion/stun/v3"
)

type soloCfg struct {
	Role     string   `json:"role"` // "controlling" | "controlled"
	Lite     bool     `json:"lite,omitempty"`
	UCPrio   bool     `json:"uc_prio,omitempty"` // EnableUseCandidateCheckPriority
	Renom    bool     `json:"renom,omitempty"`
	Locals   int      `json:"locals"`
	Remotes  int      `json:"remotes"`
	PrioL    []uint32 `json:"prio_l,omitempty"`
	PrioR    []uint32 `json:"prio_r,omitempty"`
	Tie      uint64   `json:"tie,omitempty"`
	Depth    int      `json:"depth,omitempty"`
	Ticks    int      `json:"ticks,omitempty"`
	DiscMs   int      `json:"disc_ms,omitempty"`   // disconnected timeout (-1 = explicit 0)
	FailMs   int      `json:"fail_ms,omitempty"`   // failed timeout (-1 = explicit 0)
	KeepMs   int      `json:"keep_ms,omitempty"`   // keepalive interval
	NoStart  bool     `json:"no_start,omitempty"`  // do not call StartDial/StartAccept
	NoSignal bool     `json:"no_signal,omitempty"` // do not signal remote candidates up front
	Extra    string   `json:"extra,omitempty"`     // model-specific
	// ViaConfig builds the agent with NewAgent(&AgentConfig{...}) instead of NewAgentWithOptions (the other public entry:
	// pointer-valued timeouts, where nil and an explicit zero differ)
	ViaConfig bool `json:"via_config,omitempty"`
	// RejectRemote is a CIDR whose addresses the remote IP filter rejects
	RejectRemote string `json:"reject_remote,omitempty"`
}

type soloWorld struct {
	*world
	cfg       soloCfg
	x         *sideState
	led       *ledger
	peerUfrag string
	peerPwd   string
	remotes   []*vsock
	rcands    []Candidate
	problems  []vtProblem
	contact   func()
	refills   int // how often the local candidates were released without a Restart (Failed)
	cmu       sync.Mutex
	txCounter uint64
	// peerMsgs keeps every message the scripted peer has sent, so that true duplicates can be replayed
	peerMsgs []struct {
		to   string
		from string
		data []byte
	}
}

func (sw *soloWorld) problem(finding, format string, args ...any) {
	sw.problems = append(sw.problems, vtProblem{finding, fmt.Sprintf(format, args...)})
}

func soloRemoteAddr(j int) (string, int) { return fmt.Sprintf("10.0.1.%d", j+1), 2000 + j }

func newSoloWorld(raw json.RawMessage) *soloWorld {
	sw := &soloWorld{world: newWorld(), led: newLedger(), peerUfrag: vUfragB, peerPwd: vPwdB}
	if err := json.Unmarshal(raw, &sw.cfg); err != nil {
		panic(err)
	}
	cfg := sw.cfg
	VerifTakeContact = func(_ *Agent, f func()) bool {
		sw.cmu.Lock()
		sw.contact = f
		sw.cmu.Unlock()

		return true
	}
	sw.x = &sideState{name: "A", idx: 0, ufrag: vUfragA, pwd: vPwdA}
	opts := []AgentOption{
		WithNet(vNet{}), WithMulticastDNSMode(MulticastDNSModeDisabled), WithNetworkTypes([]NetworkType{NetworkTypeUDP4}),
		WithCandidateTypes([]CandidateType{CandidateTypeHost}), WithLocalCredentials(vUfragA, vPwdA), WithLoggerFactory(nopFactory{}),
		WithHostAcceptanceMinWait(0), WithSrflxAcceptanceMinWait(0), WithPrflxAcceptanceMinWait(0), WithRelayAcceptanceMinWait(0),
	}
	if cfg.Lite {
		opts = append(opts, WithICELite(true))
	}
	if cfg.UCPrio {
		opts = append(opts, WithEnableUseCandidateCheckPriority())
	}
	if cfg.Renom {
		ctr := uint32(0)
		opts = append(opts, WithRenomination(func() uint32 { ctr++; return ctr }))
	}
	ms := func(v int) time.Duration {
		if v < 0 {
			return 0
		}

		return time.Duration(v) * time.Millisecond
	}
	if cfg.DiscMs != 0 {
		opts = append(opts, WithDisconnectedTimeout(ms(cfg.DiscMs)))
	}
	if cfg.FailMs != 0 {
		opts = append(opts, WithFailedTimeout(ms(cfg.FailMs)))
	}
	if cfg.KeepMs != 0 {
		opts = append(opts, WithKeepaliveInterval(ms(cfg.KeepMs)))
	}
	if cfg.RejectRemote != "" {
		_, reject, err := net.ParseCIDR(cfg.RejectRemote)
		if err != nil {
			panic(err)
		}
		opts = append(opts, WithRemoteIPFilter(func(ip net.IP) bool { return !reject.Contains(ip) }))
	}
	var a *Agent
	var err error
	if cfg.ViaConfig {
		zero := time.Duration(0)
		ac := &AgentConfig{
			Net: vNet{}, MulticastDNSMode: MulticastDNSModeDisabled, NetworkTypes: []NetworkType{NetworkTypeUDP4}, CandidateTypes: []CandidateType{CandidateTypeHost},
			LocalUfrag: vUfragA, LocalPwd: vPwdA, LoggerFactory: nopFactory{}, Lite: cfg.Lite,
			HostAcceptanceMinWait: &zero, SrflxAcceptanceMinWait: &zero, PrflxAcceptanceMinWait: &zero, RelayAcceptanceMinWait: &zero,
		}
		if cfg.DiscMs != 0 {
			d := ms(cfg.DiscMs)
			ac.DisconnectedTimeout = &d
		}
		if cfg.FailMs != 0 {
			d := ms(cfg.FailMs)
			ac.FailedTimeout = &d
		}
		if cfg.KeepMs != 0 {
			d := ms(cfg.KeepMs)
			ac.KeepaliveInterval = &d
		}
		if cfg.UCPrio || cfg.Renom || cfg.RejectRemote != "" {
			panic("soloCfg.ViaConfig: option not mapped")
		}
		a, err = NewAgent(ac)
	} else {
		a, err = NewAgentWithOptions(opts...)
	}
	if err != nil {
		panic(err)
	}
	sw.x.agent = a
	st := sw.x
	_ = a.OnConnectionStateChange(func(cs ConnectionState) { st.states = append(st.states, cs) })
	_ = a.OnSelectedCandidatePairChange(func(l, r Candidate) { st.selLog = append(st.selLog, l.addr().String()+">"+r.addr().String()) })
	_ = a.OnCandidate(func(c Candidate) {
		if c == nil {
			st.candLog = append(st.candLog, "nil")
		} else {
			st.candLog = append(st.candLog, c.Marshal())
		}
	})
	sw.onSend = func(s *vsock, d dgram) {
		if s.name[0] != 'a' {
			return
		}
		isReq, nominating := sw.led.onSend(s.name, d.dst, d.data)
		if isReq && nominating && !a.isControlling.Load() {
			sw.problem("", "agent emitted a nomination (USE-CANDIDATE / nomination value) while in the controlled role: %s", d.describe())
		}
		if isReq && a.lite && !a.isControlling.Load() {
			sw.problem("", "lite controlled agent originated a Binding request: %s", d.describe())
		}
	}
	sw.onDeliver = func(dst *vsock, src string, data []byte) {
		if dst.name[0] == 'a' {
			sw.led.onDeliver(dst.name, src, data, a.localUfrag, a.localPwd, a.remoteUfrag, a.remotePwd)
		}
	}
	for i := 0; i < cfg.Locals; i++ {
		sw.addLocal(i)
	}
	for j := 0; j < cfg.Remotes; j++ {
		ip, port := soloRemoteAddr(j)
		sw.remotes = append(sw.remotes, sw.newSock(fmt.Sprintf("p%d", j), ip, port, ""))
		var prio uint32
		if j < len(cfg.PrioR) {
			prio = cfg.PrioR[j]
		}
		c, err := NewCandidateHost(&CandidateHostConfig{Network: "udp", Address: ip, Port: port, Component: 1, Priority: prio})
		if err != nil {
			panic(err)
		}
		sw.rcands = append(sw.rcands, c)
		if !cfg.NoSignal {
			sw.signalRemote(j)
		}
	}
	if cfg.Tie != 0 {
		a.tieBreaker = cfg.Tie
	}
	if !cfg.NoStart {
		sw.startX()
	}

	return sw
}

func (sw *soloWorld) addLocal(i int) {
	ip, port := fmt.Sprintf("10.0.0.%d", i+1), 1000+i+100*sw.x.gen+10*sw.refills
	name := fmt.Sprintf("a%d", i)
	if sw.x.gen > 0 {
		name += fmt.Sprintf(".g%d", sw.x.gen)
	}
	if sw.refills > 0 { // local candidates added again after Failed (same generation): fresh sockets
		name += fmt.Sprintf(".f%d", sw.refills)
	}
	sock := sw.newSock(name, ip, port, "")
	var prio uint32
	if i < len(sw.cfg.PrioL) {
		prio = sw.cfg.PrioL[i]
	}
	c, err := NewCandidateHost(&CandidateHostConfig{Network: "udp", Address: ip, Port: port, Component: 1, Priority: prio})
	if err != nil {
		panic(err)
	}
	if err := sw.x.agent.addCandidate(context.Background(), c, sock); err != nil {
		panic(err)
	}
	sw.x.socks = append(sw.x.socks, sock)
	sw.x.cands = append(sw.x.cands, c)
}

func (sw *soloWorld) signalRemote(j int) {
	c, err := UnmarshalCandidate(sw.rcands[j].Marshal())
	if err != nil {
		panic(err)
	}
	_ = sw.x.agent.AddRemoteCandidate(c)
	settle()
}

func (sw *soloWorld) startX() {
	var err error
	if sw.cfg.Role == "controlling" {
		sw.x.conn, err = sw.x.agent.StartDial(sw.peerUfrag, sw.peerPwd)
	} else {
		sw.x.conn, err = sw.x.agent.StartAccept(sw.peerUfrag, sw.peerPwd)
	}
	if err != nil {
		panic(err)
	}
	settle()
	sw.cmu.Lock()
	sw.x.contact = sw.contact
	sw.cmu.Unlock()
	if sw.x.contact == nil {
		panic("hook H1 did not hand over the contact closure")
	}
}

func (sw *soloWorld) tick() {
	sw.x.ticks++
	sw.x.contact()
	settle()
}

func (sw *soloWorld) Close() {
	if err := sw.x.agent.Close(); err != nil {
		sw.problem("", "Close returned %v", err)
	}
	settle()
}

// ---------------------------------------------------------------- scripted peer messages

type peerReqOpts struct {
	uc       bool
	nom      int    // -1 none
	sameRole bool   // carry X's own role (role conflict)
	tie      uint64 // peer tie-breaker
	tieSet   bool   // use tie even when it is 0
	user     string // "" = correct
	key      string // "" = correct (X's local password)
	noMI     bool
	noFP     bool
	prio     int64 // -1: none; 0: default
	noRole   bool
	method   stun.Method
	class    stun.MessageClass
	useClass bool
	roleLast bool // the role attribute is the last one before MESSAGE-INTEGRITY (after PRIORITY), not in pion's own order
}

func (sw *soloWorld) nextTx() [stun.TransactionIDSize]byte {
	sw.txCounter++
	var id [stun.TransactionIDSize]byte
	id[0] = 0xEE
	for i := 0; i < 8; i++ {
		id[11-i] = byte(sw.txCounter >> (8 * i))
	}

	return id
}

func (sw *soloWorld) peerRequest(o peerReqOpts) []byte {
	a := sw.x.agent
	typ := stun.BindingRequest
	if o.useClass {
		typ = stun.NewType(o.method, o.class)
	}
	m := new(stun.Message)
	m.TransactionID = sw.nextTx()
	setters := []stun.Setter{typ}
	user := o.user
	if user == "" {
		user = a.localUfrag + ":" + sw.peerUfrag
	}
	if user != "-" {
		setters = append(setters, stun.NewUsername(user))
	}
	if o.uc {
		setters = append(setters, UseCandidate())
	}
	if o.nom >= 0 {
		setters = append(setters, NominationSetter{Value: uint32(o.nom), AttrType: a.nominationAttribute}) //nolint:gosec
	}
	var roleSetter stun.Setter
	if !o.noRole {
		xControlling := a.isControlling.Load()
		peerControlling := !xControlling
		if o.sameRole {
			peerControlling = xControlling
		}
		tie := o.tie
		if tie == 0 && !o.tieSet {
			tie = 0x1111111111111111
		}
		if peerControlling {
			roleSetter = AttrControlling(tie)
		} else {
			roleSetter = AttrControlled(tie)
		}
		if !o.roleLast {
			setters = append(setters, roleSetter)
		}
	}
	if o.prio >= 0 {
		p := uint32(o.prio) //nolint:gosec
		if o.prio == 0 {
			p = 1845501695
		}
		setters = append(setters, PriorityAttr(p))
	}
	if roleSetter != nil && o.roleLast {
		setters = append(setters, roleSetter)
	}
	if !o.noMI {
		key := o.key
		if key == "" {
			key = a.localPwd
		}
		setters = append(setters, stun.NewShortTermIntegrity(key))
	}
	if !o.noFP {
		setters = append(setters, stun.Fingerprint)
	}
	if err := m.Build(setters...); err != nil {
		panic(err)
	}

	return append([]byte{}, m.Raw...)
}

// peerSuccess builds a success response to the request in reqData (class may be overridden).
func (sw *soloWorld) peerResponse(reqData []byte, class stun.MessageClass, key string, mapped string) []byte {
	req := &stun.Message{Raw: append([]byte{}, reqData...)}
	if err := req.Decode(); err != nil {
		panic(err)
	}
	if key == "" {
		key = sw.peerPwd
	}
	h, p, _ := net.SplitHostPort(mapped)
	pi, _ := strconv.Atoi(p)
	setters := []stun.Setter{req, stun.NewType(stun.MethodBinding, class)}
	if class == stun.ClassErrorResponse {
		setters = append(setters, stun.ErrorCodeAttribute{Code: stun.CodeRoleConflict, Reason: []byte("Role Conflict")})
	} else {
		setters = append(setters, &stun.XORMappedAddress{IP: net.ParseIP(h), Port: pi})
	}
	if key != "-" {
		setters = append(setters, stun.NewShortTermIntegrity(key))
	}
	setters = append(setters, stun.Fingerprint)
	out, err := stun.Build(setters...)
	if err != nil {
		panic(err)
	}

	return append([]byte{}, out.Raw...)
}

// pendingOut lists X's Binding requests that are still in the harness's hands (sorted by seq).
func (sw *soloWorld) pendingOut() []dgram {
	var out []dgram
	for _, d := range sw.inflight {
		si := describeSTUN(d.data)
		if si.isSTUN && si.class == "request" && d.srcSock[0] == 'a' {
			out = append(out, d)
		}
	}
	sort.Slice(out, func(i, j int) bool { return out[i].seq < out[j].seq })

	return out
}

// purge removes everything but X's outstanding requests from the in-flight set (the scripted peer has
// no use for X's responses; oracles read them from sentLog).
func (sw *soloWorld) purge() {
	keep := sw.inflight[:0]
	for _, d := range sw.inflight {
		si := describeSTUN(d.data)
		if si.isSTUN && si.class == "request" && d.srcSock[0] == 'a' {
			keep = append(keep, d)
		}
	}
	sw.inflight = keep
}

func (sw *soloWorld) removeInflight(seq int) {
	if i := sw.find(seq); i >= 0 {
		sw.inflight = append(sw.inflight[:i:i], sw.inflight[i+1:]...)
	}
}

func (sw *soloWorld) sockName(c Candidate) string {
	for _, s := range sw.x.socks {
		if s.addr.String() == c.addr().String() {
			return s.name
		}
	}

	return "?" + c.addr().String()
}

// establish: minimal honest handshake that leaves X Connected on (local 0, remote 0).
func (sw *soloWorld) establish() {
	a := sw.x.agent
	l0, r0 := sw.x.socks[0], sw.remotes[0]
	answerAll := func() {
		for _, d := range sw.pendingOut() {
			if d.srcSock == l0.name && d.dst == r0.addr.String() {
				sw.removeInflight(d.seq)
				sw.inject(l0, r0.addr.String(), sw.peerResponse(d.data, stun.ClassSuccessResponse, "", d.src))
			}
		}
	}
	if a.isControlling.Load() {
		for i := 0; i < 4 && a.getSelectedPair() == nil; i++ {
			sw.tick()
			answerAll()
		}
	} else {
		sw.inject(l0, r0.addr.String(), sw.peerRequest(peerReqOpts{uc: true, nom: -1, prio: 0}))
		answerAll()
		if !a.lite && a.getSelectedPair() == nil {
			sw.tick()
			answerAll()
		}
	}
	sw.purge()
	if a.getSelectedPair() == nil {
		panic("establish: agent did not select a pair")
	}
}

// agentState renders the agent alone (no network).
func (sw *soloWorld) agentState() string {
	infos := map[[stun.TransactionIDSize]byte]*txInfo{}
	var sb strings.Builder
	agentCanon(&sb, 0, sw.x.agent, infos)
	var sigs []string
	for _, ti := range infos {
		sort.Strings(ti.pend)
		sigs = append(sigs, "{"+strings.Join(ti.pend, ";")+"}")
	}
	sort.Strings(sigs)

	return sb.String() + strings.Join(sigs, "")
}

func (sw *soloWorld) canon() string {
	infos := map[[stun.TransactionIDSize]byte]*txInfo{}
	var sb strings.Builder
	agentCanon(&sb, 0, sw.x.agent, infos)
	for _, d := range sw.inflight {
		si := describeSTUN(d.data)
		if !si.isSTUN {
			continue
		}
		if infos[si.tx] == nil {
			infos[si.tx] = &txInfo{}
		}
		infos[si.tx].msgs = append(infos[si.tx].msgs, d.describe())
	}
	var sigs []string
	for _, ti := range infos {
		sort.Strings(ti.pend)
		sort.Strings(ti.msgs)
		sigs = append(sigs, "{"+strings.Join(ti.pend, ";")+"#"+strings.Join(ti.msgs, ";")+"}")
	}
	sort.Strings(sigs)
	sb.WriteString(strings.Join(sigs, ""))

	return sb.String()
}

func stunSignedWith(data []byte, pwd string) bool {
	m := &stun.Message{Raw: append([]byte{}, data...)}
	if m.Decode() != nil {
		return false
	}

	return stun.MessageIntegrity([]byte(pwd)).Check(m) == nil
}
