package ice

// C08 — Close always terminates, unblocks everyone, and is final.
// VT: Close / GracefulClose (from an API goroutine or from inside a callback) at every position of
// two-agent session histories with blocked Read / AwaitConnect / Write callers, and at every position of
// gathering histories; the bubble's end is the goroutine census (time is frozen: a goroutine that would
// only leave after a timer fires counts as still running). CS: Close racing inbound traffic, an API getter,
// a second Close / GracefulClose and a handler that closes.

import (
	"context"
	"encoding/json"
	"errors"
	"fmt"
	"net"
	"os"
	"strconv"
	"strings"
	"testing/synctest"
	"time"

	"github.com/pion/ice/v4/internal/zzmc"
	"github.com/pion/stun/v3"
)

func init() {
	registerCheck("C08", checkC08)
	vtModels["closeat"] = func(cfg json.RawMessage) vtModel { return newCloseModel(cfg) }
	vtModels["gather-strict"] = func(cfg json.RawMessage) vtModel {
		m := newGatherModel(cfg)
		m.strict = true
		m.gatherWorld.strict = true

		return m
	}
	vtModels["tcpclose"] = func(cfg json.RawMessage) vtModel { return newTCPCloseModel(cfg) }
	vtModels["dialclose"] = func(cfg json.RawMessage) vtModel { return newDialModel(cfg) }
	csScenarios["agent-close-race"] = func() zzmc.Scenario { return c08closeRace(false) }
	csScenarios["agent-close-race-handler"] = func() zzmc.Scenario { return c08closeRace(true) }
}

type closeSide struct {
	closed      bool
	readDone    chan struct{}
	awaitDone   chan struct{}
	awaitErr    error
	writeDone   chan struct{}
	writeErr    error
	writing     bool
	sentAtClose int
	statesAt    int
	armed       string // "", "state", "pair": the next callback of that stream closes the agent
	closedInCB  bool
}

type closeModel struct {
	*pairModel
	cs     [2]*closeSide
	closes int
}

func newCloseModel(raw json.RawMessage) *closeModel {
	m := &closeModel{pairModel: &pairModel{pairWorld: newPairWorld(raw)}}
	for i := range m.side {
		c := &closeSide{readDone: make(chan struct{}), awaitDone: make(chan struct{})}
		m.cs[i] = c
		s := m.side[i]
		a := s.agent
		go func() { // a reader blocked in Conn.Read
			defer close(c.readDone)
			buf := make([]byte, 2048)
			for {
				if _, err := s.conn.Read(buf); err != nil {
					return
				}
			}
		}()
		go func() { // a caller blocked in AwaitConnect (what Dial / Accept block in)
			defer close(c.awaitDone)
			c.awaitErr = a.AwaitConnect(context.Background())
		}()
		// handlers that may close the agent from inside the callback
		st := s
		_ = a.OnConnectionStateChange(func(cs ConnectionState) {
			st.states = append(st.states, cs)
			if c.armed == "state" && cs != ConnectionStateClosed {
				c.armed = ""
				c.closedInCB = true
				if err := a.Close(); err != nil {
					m.problem("", "Close from inside the connection-state callback returned %v", err)
				}
			}
		})
		_ = a.OnSelectedCandidatePairChange(func(l, r Candidate) {
			st.selLog = append(st.selLog, l.addr().String()+">"+r.addr().String())
			if c.armed == "pair" {
				c.armed = ""
				c.closedInCB = true
				if err := a.Close(); err != nil {
					m.problem("", "Close from inside the selected-pair callback returned %v", err)
				}
			}
		})
	}
	synctest.Wait()

	return m
}

// wedges reports whether event e would make agent i write to a socket that does not accept writes (the
// write happens inside the agent's task loop, which then stays busy until Close aborts it: the harness could
// not even observe the agent any more).
func (m *closeModel) wedges(e string) bool {
	kind, arg, _ := strings.Cut(e, ":")
	if (kind == "restart" || kind == "offer" || kind == "answer") && (m.cs[0].closed || m.cs[1].closed) {
		return true // a restart needs both agents
	}
	for i, c := range m.cs {
		if !c.writing || c.closed {
			continue
		}
		switch kind {
		case "tick":
			if arg == strconv.Itoa(i) {
				return true
			}
		case "deliver", "dup":
			seq, _ := strconv.Atoi(arg)
			if idx := m.find(seq); idx >= 0 {
				if dst := m.routable(m.inflight[idx].srcSock, m.inflight[idx].dst); dst != nil && m.sideOfSockName(dst.name) == i {
					return true
				}
			}
		}
	}

	return false
}

func (m *closeModel) Enabled() []string {
	def := m.defaultEvent()
	var evs []string
	if def != "" && !m.wedges(def) {
		evs = append(evs, def)
	}
	if m.devs < m.cfg.Dev {
		for _, e := range m.all() {
			if e != def && !strings.HasPrefix(e, "dup") && !m.wedges(e) {
				evs = append(evs, e)
			}
		}
		for i, c := range m.cs {
			if c.closed {
				continue
			}
			evs = append(evs, fmt.Sprintf("close:%d:api", i), fmt.Sprintf("close:%d:graceful", i))
			if c.armed == "" {
				evs = append(evs, fmt.Sprintf("arm:%d:state", i), fmt.Sprintf("arm:%d:pair", i))
			}
			if !c.writing && m.side[i].agent.getSelectedPair() != nil {
				evs = append(evs, fmt.Sprintf("bwrite:%d", i))
			}
		}
	}

	return evs
}

func (m *closeModel) Apply(ev string) {
	f := strings.Split(ev, ":")
	switch f[0] {
	case "close":
		m.devs++
		i, _ := strconv.Atoi(f[1])
		a := m.side[i].agent
		var err error
		if f[2] == "graceful" {
			err = a.GracefulClose()
		} else {
			err = a.Close()
		}
		if err != nil {
			m.problem("", "%s returned %v", f[2], err)
		}
		// a second close, of the other flavour, must be harmless
		if f[2] == "graceful" {
			err = a.Close()
		} else {
			err = a.GracefulClose()
		}
		if err != nil {
			m.problem("", "repeated close returned %v", err)
		}
		synctest.Wait()
		m.afterClose(i, f[2])
	case "arm":
		m.devs++
		i, _ := strconv.Atoi(f[1])
		m.cs[i].armed = f[2]
	case "bwrite":
		m.devs++
		i, _ := strconv.Atoi(f[1])
		c := m.cs[i]
		for _, s := range m.side[i].socks {
			s.blockW = true // the socket stops accepting writes: WriteTo blocks until closed or a past deadline is set
		}
		c.writing = true
		c.writeDone = make(chan struct{})
		conn := m.side[i].conn
		go func() {
			defer close(c.writeDone)
			_, c.writeErr = conn.Write([]byte("application data that will never leave"))
		}()
		synctest.Wait()
	default:
		m.pairModel.Apply(ev)
	}
	// an agent closed from inside a callback
	for i, c := range m.cs {
		if c.closedInCB && !c.closed {
			synctest.Wait()
			m.afterClose(i, "callback")
		}
	}
	m.checkClosedStayQuiet()
}

func (m *closeModel) sentBy(i int) int {
	n := 0
	for _, d := range m.sentLog {
		if m.sideOfSockName(d.srcSock) == i {
			n++
		}
	}

	return n
}

func (m *closeModel) sideOfSockName(n string) int {
	switch n[0] {
	case 'a':
		return 0
	case 'b':
		return 1
	}

	return -1
}

// afterClose: everything the statement promises once Close has returned.
func (m *closeModel) afterClose(i int, how string) {
	c := m.cs[i]
	s := m.side[i]
	a := s.agent
	c.closed = true
	m.closes++
	who := fmt.Sprintf("agent %s after %s close", s.name, how)
	done := func(ch chan struct{}) bool {
		select {
		case <-ch:
			return true
		default:
			return false
		}
	}
	if !done(c.readDone) {
		m.problem("", "%s: a blocked Read has not returned", who)
	}
	if !done(c.awaitDone) {
		m.problem("", "%s: a blocked AwaitConnect has not returned", who)
	}
	if c.writing && !done(c.writeDone) {
		m.problem("", "%s: a blocked Write has not returned", who)
	}
	if len(s.states) == 0 || s.states[len(s.states)-1] != ConnectionStateClosed {
		m.problem("", "%s: the last notified state is not Closed (%v)", who, s.states)
	}
	// every later API call returns at once; state-dependent results report the closed error
	expectClosed := func(name string, err error) {
		if !errors.Is(err, ErrClosed) {
			finding := ""
			if name == "GetSelectedCandidatePair" {
				finding = "S13"
			}
			m.problem(finding, "%s: %s returned %v, want the closed error", who, name, err)
		}
	}
	_, err := a.GetLocalCandidates()
	expectClosed("GetLocalCandidates", err)
	_, err = a.GetRemoteCandidates()
	expectClosed("GetRemoteCandidates", err)
	_, _, err = a.GetLocalUserCredentials()
	expectClosed("GetLocalUserCredentials", err)
	_, _, err = a.GetRemoteUserCredentials()
	expectClosed("GetRemoteUserCredentials", err)
	expectClosed("SetRemoteCredentials", a.SetRemoteCredentials("ufragXXXX", "pwdXXXXXXXXXXXXXXXXXXXXXXXXXX"))
	expectClosed("Restart", a.Restart("", ""))
	expectClosed("GatherCandidates", a.GatherCandidates())
	_, err = a.GetGatheringState()
	expectClosed("GetGatheringState", err)
	_, err = a.GetSelectedCandidatePair()
	expectClosed("GetSelectedCandidatePair", err)
	_, err = s.conn.Read(make([]byte, 16))
	expectClosed("Conn.Read", err)
	_, err = s.conn.Write([]byte("late"))
	expectClosed("Conn.Write", err)
	ctx, cancel := context.WithCancel(context.Background())
	expectClosed("AwaitConnect", a.AwaitConnect(ctx))
	cancel()
	_, err = a.Dial(context.Background(), "ufragXXXX", "pwdXXXXXXXXXXXXXXXXXXXXXXXXXX")
	if err == nil {
		m.problem("", "%s: Dial succeeded", who)
	}
	rc, _ := NewCandidateHost(&CandidateHostConfig{Network: "udp", Address: "10.7.7.7", Port: 7, Component: 1})
	_ = a.AddRemoteCandidate(rc)
	_ = a.GetCandidatePairsStats()
	_ = a.GetLocalCandidatesStats()
	_ = s.conn.GetCandidatePairsInfo()
	if err := a.Close(); err != nil {
		m.problem("", "%s: one more Close returned %v", who, err)
	}
	synctest.Wait()
	c.sentAtClose = m.sentBy(i)
	c.statesAt = len(s.states)
	for _, sk := range s.socks {
		if !sk.isClosed() {
			m.problem("", "%s: socket %s is still open", who, sk.name)
		}
	}
}

// checkClosedStayQuiet: a closed agent has no observable effect any more.
func (m *closeModel) checkClosedStayQuiet() {
	for i, c := range m.cs {
		if !c.closed {
			continue
		}
		if n := m.sentBy(i); n != c.sentAtClose {
			m.problem("", "closed agent %s emitted %d datagram(s)", m.side[i].name, n-c.sentAtClose)
			c.sentAtClose = n
		}
		if n := len(m.side[i].states); n != c.statesAt {
			m.problem("", "closed agent %s delivered a connection-state callback (%v)", m.side[i].name, m.side[i].states[c.statesAt:])
			c.statesAt = n
		}
	}
}

func (m *closeModel) Key() (string, []int) {
	k, spent := m.pairModel.Key()
	for i, c := range m.cs {
		k += fmt.Sprintf(" C%d[closed=%v armed=%s writing=%v]", i, c.closed, c.armed, c.writing)
	}

	return k, append(spent, m.closes)
}

func (m *closeModel) Finish() []vtProblem { return nil }

func (m *closeModel) Close() {
	for i, s := range m.side {
		if !m.cs[i].closed {
			if err := s.agent.Close(); err != nil {
				m.problem("", "Close returned %v", err)
			}
		}
	}
	synctest.Wait()
	for _, c := range m.cs {
		<-c.readDone
		<-c.awaitDone
		if c.writing {
			<-c.writeDone
		}
	}
}

// ---------------------------------------------------------------- CS: Close racing everything else

func c08closeRace(handlerCloses bool) zzmc.Scenario {
	return zzmc.Scenario{
		Name:     "agent-close-race",
		Focus:    []string{"taskloop.go", "candidate_base.go", "agent_handlers.go"},
		MaxSteps: 4000,
		Setup: func(s *zzmc.Sched) func(string) (string, string) {
			w := newWorld()
			a, err := NewAgentWithOptions(WithNet(vNet{}), WithMulticastDNSMode(MulticastDNSModeDisabled), WithNetworkTypes([]NetworkType{NetworkTypeUDP4}),
				WithCandidateTypes([]CandidateType{CandidateTypeHost}), WithLocalCredentials(vUfragA, vPwdA), WithLoggerFactory(nopFactory{}))
			if err != nil {
				panic(err)
			}
			var states []ConnectionState
			fail := ""
			_ = a.OnConnectionStateChange(func(cs ConnectionState) {
				states = append(states, cs)
				if handlerCloses && cs == ConnectionStateChecking {
					if err := a.Close(); err != nil {
						fail += "CLOSE-IN-HANDLER-ERROR "
					}
				}
			})
			sock := w.newSock("a0", "10.0.0.1", 1000, "")
			w.newSock("p0", "10.0.1.1", 2000, "")
			c, _ := NewCandidateHost(&CandidateHostConfig{Network: "udp", Address: "10.0.0.1", Port: 1000, Component: 1})
			if err := a.addCandidate(context.Background(), c, sock); err != nil {
				panic(err)
			}
			rc, _ := NewCandidateHost(&CandidateHostConfig{Network: "udp", Address: "10.0.1.1", Port: 2000, Component: 1})
			_ = a.loop.Run(a.loop, func(context.Context) { a.addRemoteCandidate(rc) })
			if _, err := a.StartAccept(vUfragB, vPwdB); err != nil {
				panic(err)
			}
			req, _ := stun.Build(stun.BindingRequest, stun.TransactionID, stun.NewUsername(vUfragA+":"+vUfragB),
				AttrControlling(5), PriorityAttr(100), stun.NewShortTermIntegrity(vPwdA), stun.Fingerprint)
			var getErr, c1, c2 error
			var closed1, closed2 bool
			s.Go("IN", func() { sock.in <- rxPacket{"10.0.1.1:2000", req.Raw} })
			s.Go("GET", func() { _, getErr = a.GetLocalCandidates() })
			s.Go("K1", func() { c1 = a.Close(); closed1 = true })
			s.Go("K2", func() { c2 = a.GracefulClose(); closed2 = true })

			return func(dead string) (string, string) {
				if dead != "" {
					_ = sock.Close()
				}
				synctest.Wait()
				if !closed1 || !closed2 || c1 != nil || c2 != nil {
					fail += "CLOSE-DID-NOT-RETURN-NIL "
				}
				if _, err := a.GetLocalCandidates(); !errors.Is(err, ErrClosed) {
					fail += fmt.Sprintf("POSTCLOSE-GET=%v ", err)
				}
				if getErr != nil && !errors.Is(getErr, ErrClosed) {
					fail += fmt.Sprintf("GET-ERROR=%v ", getErr)
				}
				if len(states) == 0 || states[len(states)-1] != ConnectionStateClosed {
					fail += fmt.Sprintf("LAST-STATE=%v ", states)
				}
				for i := 1; i < len(states); i++ {
					if states[i-1] == ConnectionStateClosed {
						fail += "STATE-AFTER-CLOSED "
					}
				}
				if !sock.isClosed() {
					fail += "SOCKET-LEFT-OPEN "
				}
				replies := 0
				for _, d := range w.sentLog {
					if describeSTUN(d.data).class == "success response" {
						replies++
					}
				}

				return fmt.Sprintf("get=%v replies=%d states=%d", getErr, replies, len(states)), fail
			}
		},
	}
}

var _ = net.IPv4zero

// c08death classifies a bubble that could not end (goroutines left after Close).
// classifier S26: the history restarts the agent while a STUN / TURN exchange of the running gathering
// cycle is unanswered; Close only waits for the current cycle, the superseded one lives until its own I/O timeout.
func c08death(hist []string, stderr string) string {
	// Close does wait for the cycle that was started last (also after a Restart); only a cycle that a later
	// GatherCandidates replaced is not waited for: the finding needs gather .. restart .. gather.
	gathering, superseded := false, false
	for _, ev := range hist {
		switch {
		case ev == "gather":
			if superseded && strings.Contains(stderr, "gatherCandidates") {
				return "S26"
			}
			gathering = true
		case ev == "timeout":
			gathering, superseded = false, false
		case ev == "restart" && gathering:
			superseded = true
		}
	}

	return ""
}

func checkC08(c *runCtx) {
	c.assume("'bounded time' is decided without a clock: inside a synctest bubble a call that does not return, or a goroutine that does not end, is a deadlock of the bubble, reported deterministically",
		"the goroutine census is the end of the bubble with the clock stopped: a goroutine that would only leave after a timer fires counts as still running",
		"GracefulClose from inside a callback is excluded by its documentation and not exercised")
	p := newVTPool()
	defer p.close()
	dl := c01deadline(c, 240, 1500)
	dev := 2
	if !c.quick() {
		dev = 3
	}
	h1, h2 := []string{"host"}, []string{"host", "host"}
	vtSearch(c, p, vtSpec{Name: fmt.Sprintf("1x1 session, close at every position, D<=%d", dev), Model: "closeat", Cfg: pairCfg{KindsA: h1, KindsB: h1, Ticks: 3, Dev: dev}, Deadline: dl})
	vtSearch(c, p, vtSpec{Name: fmt.Sprintf("2x1 session with restart, close at every position, D<=%d", dev), Model: "closeat", Cfg: pairCfg{KindsA: h2, KindsB: h1, Ticks: 3, Dev: dev, Restarts: 1}, Deadline: dl})
	// gathering: close at every position of every gathering history, strict census (no wind-down wait)
	depth := 5
	if !c.quick() {
		depth = 6
	}
	stunURL, turnURL := "stun:198.51.100.1:3478", "turn:198.51.100.1:3478?transport=udp"
	vtSearch(c, p, vtSpec{Name: "gathering host + srflx, strict census", Model: "gather-strict", Cfg: gatherCfg{Ifaces: gIfacesBasic, NetTypes: []string{"udp4"}, CandTypes: []string{"host", "srflx"}, URLs: []string{stunURL}, Depth: depth}, Deadline: dl, DeathFinding: c08death})
	vtSearch(c, p, vtSpec{Name: "gathering relay, strict census", Model: "gather-strict", Cfg: gatherCfg{Ifaces: gIfacesBasic, NetTypes: []string{"udp4"}, CandTypes: []string{"relay"}, URLs: []string{turnURL}, Depth: depth}, Deadline: dl, DeathFinding: c08death})
	vtSearch(c, p, vtSpec{Name: "gathering relay, every socket Close reports an error, strict census", Model: "gather-strict", Cfg: gatherCfg{Ifaces: gIfacesBasic, NetTypes: []string{"udp4"}, CandTypes: []string{"relay"}, URLs: []string{turnURL}, Depth: depth, CloseErr: true}, Deadline: dl, DeathFinding: c08death})
	vtSearch(c, p, vtSpec{Name: "gathering relay over TLS (turns:), the server accepts the connection and never answers the handshake, strict census", Model: "gather-strict",
		Cfg: gatherCfg{Ifaces: gIfacesBasic, NetTypes: []string{"udp4", "tcp4"}, CandTypes: []string{"relay"}, URLs: []string{"turns:198.51.100.1:5349?transport=tcp"}, Depth: depth}, Deadline: dl, DeathFinding: c08death})
	// a passive ICE-TCP candidate (TCPMux) whose peer stops reading: writes block inside the agent's loop
	vtSearch(c, p, vtSpec{Name: "passive TCP candidate, peer stops reading, close at every position", Model: "tcpclose",
		Cfg: gatherCfg{Ifaces: gIfacesBasic, NetTypes: []string{"tcp4"}, CandTypes: []string{"host"}, TCPMux: "10.0.0.1:7001", Depth: depth + 2}, Deadline: dl})
	vtSearch(c, p, vtSpec{Name: "passive TCP candidate of an agent that has not started (nobody reads the connection, which queues one packet), the peer keeps sending, close at every position", Model: "tcpclose",
		Cfg: gatherCfg{Ifaces: gIfacesBasic, NetTypes: []string{"tcp4"}, CandTypes: []string{"host"}, TCPMux: "10.0.0.1:7001", Depth: depth + 1, TCPReadBuf: 1, NoStart: true}, Deadline: dl})
	// the blocking Dial / Accept themselves: connect, cancel the caller's context or close, in every order
	for _, role := range []string{"controlling", "controlled"} {
		vtSearch(c, p, vtSpec{Name: fmt.Sprintf("a caller blocked in Dial / Accept (%s), all sequences of length <= %d", role, depth+3), Model: "dialclose",
			Cfg: soloCfg{Role: role, Locals: 1, Remotes: 1, NoStart: true, Depth: depth + 3}, Deadline: dl})
	}
	if os.Getenv("VERIF_VARIANT") == "instr" {
		b := 2
		if !c.quick() {
			b = 3
		}
		csExplore(c, "agent-close-race", b, dl, nil)
		csExplore(c, "agent-close-race-handler", b, dl, nil)
		csExplore(c, "taskloop-5", b, dl, nil)
	} else {
		c.capHit("built without instrumentation: the interleaving scenarios were not run")
	}
	_ = time.Second
}

// ---------------------------------------------------------------- passive ICE-TCP candidate whose peer stops reading

type tcpCloseModel struct {
	*gatherWorld
	depth    int
	client   *pipeEnd
	server   *pipeEnd
	wedged   bool
	done     bool
	nreq     int
}

func newTCPCloseModel(raw json.RawMessage) *tcpCloseModel {
	m := &tcpCloseModel{gatherWorld: newGatherWorld(raw)}
	m.strict = true
	if !m.cfg.NoStart {
		if _, err := m.a.StartAccept(vUfragB, vPwdB); err != nil {
			panic(err)
		}
	}
	synctest.Wait()

	return m
}

func (m *tcpCloseModel) Enabled() []string {
	if m.done || (m.cfg.Depth > 0 && m.depth >= m.cfg.Depth) {
		return nil
	}
	evs := []string{"close:api", "close:graceful"}
	if m.wedged {
		return evs // the agent's loop is busy in a socket write: only Close can be asked for
	}
	if st, _ := m.a.GetGatheringState(); st == GatheringStateNew {
		evs = append(evs, "gather")
	}
	if m.client == nil {
		if len(m.localCands()) > 0 {
			evs = append(evs, "connect")
		}
	} else {
		evs = append(evs, "request", "stopreading", "hangup")
	}
	evs = append(evs, "tick", "restart")

	return evs
}

func (m *tcpCloseModel) request() []byte {
	m.nreq++
	lu, lp, _ := m.a.GetLocalUserCredentials()
	msg, err := stun.Build(stun.BindingRequest, stun.TransactionID, stun.NewUsername(lu+":"+vUfragB), AttrControlling(7), PriorityAttr(1845501695),
		stun.NewShortTermIntegrity(lp), stun.Fingerprint)
	if err != nil {
		panic(err)
	}

	return c15frame(msg.Raw)
}

func (m *tcpCloseModel) Apply(ev string) {
	m.depth++
	switch ev {
	case "gather":
		if err := m.a.GatherCandidates(); err != nil {
			m.problem("", "GatherCandidates: %v", err)
		}
	case "connect":
		c, s := newPipe(&net.TCPAddr{IP: net.ParseIP("192.0.2.9").To4(), Port: 40001}, m.lis.addr)
		m.client, m.server = c, s
		m.lis.ch <- s
		_, _ = c.Write(m.request())
	case "request":
		_, _ = m.client.Write(m.request())
	case "stopreading":
		m.server.mu.Lock()
		m.server.blockW = true
		m.server.mu.Unlock()
	case "hangup":
		_ = m.client.Close()
		m.client = nil
	case "tick":
		if m.contact != nil {
			go m.contact() // may block inside the loop if the peer has stopped reading
		}
	case "restart":
		if err := m.a.Restart("", ""); err != nil {
			m.problem("", "Restart: %v", err)
		}
		m.client = nil
	case "close:api", "close:graceful":
		var err error
		if ev == "close:graceful" {
			err = m.a.GracefulClose()
		} else {
			err = m.a.Close()
		}
		if err != nil {
			m.problem("", "%s returned %v", ev, err)
		}
		m.closed, m.done = true, true
		synctest.Wait()
		if len(m.states) == 0 || m.states[len(m.states)-1] != ConnectionStateClosed {
			m.problem("", "after %s the last notified state is not Closed (%v)", ev, m.states)
		}
		if _, err := m.a.GetLocalCandidates(); !errors.Is(err, ErrClosed) {
			m.problem("", "after %s GetLocalCandidates returned %v", ev, err)
		}
		if m.server != nil && !m.client0closedByMux() {
			m.problem("", "after %s the TCP connection of the passive candidate is still open", ev)
		}
	default:
		panic("unknown event " + ev)
	}
	synctest.Wait()
	// is the agent's loop stuck in a write to the peer that stopped reading?
	if m.server != nil && !m.done {
		m.server.mu.Lock()
		blocked := m.server.blockW
		m.server.mu.Unlock()
		if blocked && (ev == "request" || ev == "tick" || ev == "connect") {
			m.wedged = m.loopBusy()
		}
	}
}

func (m *tcpCloseModel) client0closedByMux() bool {
	if m.client == nil {
		return true
	}

	return m.client.closedByPeer()
}

// loopBusy: a task submitted now would not be taken (the loop goroutine is inside a task).
func (m *tcpCloseModel) loopBusy() bool {
	ctx, cancel := context.WithCancel(context.Background())
	cancel()
	ran := false
	_ = m.a.loop.Run(ctx, func(context.Context) { ran = true })

	return !ran && m.server.blockW
}

func (m *tcpCloseModel) Key() (string, []int) {
	st, _ := "", 0
	if !m.wedged && !m.done {
		g, _ := m.a.GetGatheringState()
		st = g.String()
	}
	blocked := false
	if m.server != nil {
		m.server.mu.Lock()
		blocked = m.server.blockW
		m.server.mu.Unlock()
	}

	return fmt.Sprintf("gs=%s cs=%v client=%v blocked=%v wedged=%v done=%v locals=%d", st, len(m.states), m.client != nil, blocked, m.wedged, m.done, len(m.candLog)), []int{m.depth}
}

func (m *tcpCloseModel) Problems() []vtProblem {
	p := m.problems
	m.problems = nil

	return p
}
func (m *tcpCloseModel) Finish() []vtProblem { return nil }
func (m *tcpCloseModel) Close() {
	if m.client != nil {
		_ = m.client.Close()
	}
	m.gatherWorld.Close()
}

// ---------------------------------------------------------------- a caller blocked in Dial / Accept

// dialModel: one real agent whose application calls the blocking Dial (controlling) or Accept (controlled) on a
// goroutine of its own; the scripted peer, the clock-free ticks, the cancellation of the caller's context and
// Close / GracefulClose are the events. The call returns exactly when the first of {connected, cancelled, closed}
// has happened, and with the result that belongs to it.
type dialModel struct {
	*soloWorld
	depth     int
	cancel    context.CancelFunc
	ret       chan struct{}
	conn      *Conn
	err       error
	first     string // "", "connect", "cancel", "close"
	cancelled bool
	closed    bool
}

func newDialModel(raw json.RawMessage) *dialModel {
	m := &dialModel{soloWorld: newSoloWorld(raw), ret: make(chan struct{})}
	ctx, cancel := context.WithCancel(context.Background())
	m.cancel = cancel
	a := m.x.agent
	go func() {
		defer close(m.ret)
		if m.cfg.Role == "controlling" {
			m.conn, m.err = a.Dial(ctx, m.peerUfrag, m.peerPwd)
		} else {
			m.conn, m.err = a.Accept(ctx, m.peerUfrag, m.peerPwd)
		}
	}()
	synctest.Wait()
	m.cmu.Lock()
	m.x.contact = m.contact
	m.cmu.Unlock()
	if m.x.contact == nil {
		panic("hook H1 did not hand over the contact closure")
	}

	return m
}

func (m *dialModel) returned() bool {
	select {
	case <-m.ret:
		return true
	default:
		return false
	}
}

func (m *dialModel) Enabled() []string {
	if m.closed || (m.cfg.Depth > 0 && m.depth >= m.cfg.Depth) {
		return nil
	}
	evs := []string{"tick", "check"}
	if len(m.pendingOut()) > 0 {
		evs = append(evs, "answer")
	}
	if !m.cancelled {
		evs = append(evs, "cancel")
	}

	return append(evs, "restart", "close:api", "close:graceful")
}

func (m *dialModel) Apply(ev string) {
	m.depth++
	a := m.x.agent
	l0, r0 := m.x.socks[0], m.remotes[0]
	switch ev {
	case "tick":
		m.tick()
	case "check":
		m.inject(l0, r0.addr.String(), m.peerRequest(peerReqOpts{uc: !a.isControlling.Load(), nom: -1, prio: 0}))
	case "answer":
		for _, d := range m.pendingOut() {
			if d.srcSock == l0.name && d.dst == r0.addr.String() {
				m.removeInflight(d.seq)
				m.inject(l0, r0.addr.String(), m.peerResponse(d.data, stun.ClassSuccessResponse, "", d.src))
			}
		}
	case "cancel":
		m.cancelled = true
		m.cancel()
	case "restart":
		m.x.gen++
		if err := a.Restart(fmt.Sprintf("ufragAAAAg%d", m.x.gen), fmt.Sprintf("pwdAAAAAAAAAAAAAAAAAAAAAAAg%d", m.x.gen)); err != nil {
			m.problem("", "Restart: %v", err)
		}
		m.inflight = nil
		m.x.socks, m.x.cands = nil, nil
		for i := 0; i < m.cfg.Locals; i++ {
			m.addLocal(i)
		}
		_ = a.SetRemoteCredentials(m.peerUfrag, m.peerPwd)
		for j := range m.remotes {
			m.signalRemote(j)
		}
	case "close:api", "close:graceful":
		var err error
		if ev == "close:graceful" {
			err = a.GracefulClose()
		} else {
			err = a.Close()
		}
		if err != nil {
			m.problem("", "%s returned %v", ev, err)
		}
		m.closed = true
	default:
		panic("unknown event " + ev)
	}
	synctest.Wait()
	connected := false
	for _, st := range m.x.states {
		connected = connected || st == ConnectionStateConnected
	}
	if m.first == "" {
		switch {
		case ev == "cancel":
			m.first = "cancel"
		case m.closed:
			m.first = "close"
		case connected:
			m.first = "connect"
		}
	}
	call := "Dial"
	if m.cfg.Role != "controlling" {
		call = "Accept"
	}
	if m.first == "" {
		if m.returned() {
			m.problem("", "%s returned (%v) although the agent has not connected, the context is live and the agent is open", call, m.err)
		}

		return
	}
	if !m.returned() {
		m.problem("", "%s is still blocked after %s", call, m.first)

		return
	}
	switch m.first {
	case "connect":
		if m.err != nil || m.conn == nil {
			m.problem("", "%s returned (%v, %v) after the agent connected", call, m.conn != nil, m.err)
		}
	case "cancel":
		if !errors.Is(m.err, ErrCanceledByCaller) || m.conn != nil {
			m.problem("", "%s returned (%v, %v) after its context was cancelled", call, m.conn != nil, m.err)
		}
	case "close":
		if !errors.Is(m.err, ErrClosed) || m.conn != nil {
			m.problem("", "%s returned (%v, %v) after the agent was closed", call, m.conn != nil, m.err)
		}
	}
	if m.closed {
		if len(m.x.states) == 0 || m.x.states[len(m.x.states)-1] != ConnectionStateClosed {
			m.problem("", "after %s the last notified state is not Closed (%v)", ev, m.x.states)
		}
		if m.conn != nil {
			if _, err := m.conn.Write([]byte("late")); !errors.Is(err, ErrClosed) {
				m.problem("", "after %s a Write on the connection %s had returned gave %v", ev, call, err)
			}
		}
	}
}

func (m *dialModel) Key() (string, []int) {
	k := m.agentState()
	if m.closed {
		k = "closed"
	}

	return fmt.Sprintf("%s first=%s ret=%v cancelled=%v out=%d", k, m.first, m.returned(), m.cancelled, len(m.pendingOut())), []int{m.depth}
}

func (m *dialModel) Problems() []vtProblem {
	p := m.problems
	m.problems = nil

	return p
}

func (m *dialModel) Finish() []vtProblem { return nil }

func (m *dialModel) Close() {
	m.cancel()
	if !m.closed {
		m.soloWorld.Close()
	}
}
