package ice

// C13 — users of a shared mux cannot disturb each other. Engine CS fine mode on the UDP mux group:
// the lock-free write-abort protocol (writeState) and the reference counting of handles.

import (
	"context"
	"errors"
	"fmt"
	"io"
	"net"
	"net/netip"
	"os"
	"strings"
	"sync"
	"time"

	"github.com/pion/ice/v4/internal/zzmc"
)

func init() {
	registerCheck("C13", checkC13)
	vReplayers["C13"] = csReplay
	csScenarios["writeabort"] = func() zzmc.Scenario { return c13writeAbort(true, 0, false, false) }
	csScenarios["writeabort-nonblocking"] = func() zzmc.Scenario { return c13writeAbort(false, 0, false, false) }
	csScenarios["writeabort-two-aborts"] = func() zzmc.Scenario { return c13writeAbort(true, 0, true, false) }
	csScenarios["writeabort-ctx-writer"] = func() zzmc.Scenario { return c13writeAbort(true, 0, false, true) }
	csScenarios["writeabort-arming-fails"] = func() zzmc.Scenario { return c13writeAbort(true, 1, false, false) }
	csScenarios["writeabort-clearing-fails"] = func() zzmc.Scenario { return c13writeAbort(true, -1, false, false) }
	csScenarios["refcount-udp-addrport"] = func() zzmc.Scenario { return c13refcount(true) }
	csScenarios["writeabort-addrport"] = func() zzmc.Scenario { return c13writeAbort(true, 0, false, false, true) }
	csScenarios["writeabort-addrport-ctx-writer"] = func() zzmc.Scenario { return c13writeAbort(true, 0, false, true, true) }
	csScenarios["refcount-udp"] = func() zzmc.Scenario { return c13refcount() }
}

// fakeBottom is the shared socket under the mux: WriteTo either returns at once or blocks until a write
// deadline <= now is armed (then it times out), the socket becomes writable (ENV) or it is closed.
type fakeBottom struct {
	mu        sync.Mutex
	dl        time.Time
	dlLog     []string
	wake      chan struct{}
	closed    chan struct{}
	once      sync.Once
	block     bool
	failNth   int  // fail the n-th SetWriteDeadline call (1-based)
	failClear bool // fail the first SetWriteDeadline(zero) call
	nSet      int
	writes    int
	closes    int
	rx        chan rxPacket
	wildcard  bool // bound to the unspecified address: the mux then serves both IP families
}

func newFakeBottom(block bool) *fakeBottom {
	return &fakeBottom{wake: make(chan struct{}), closed: make(chan struct{}), block: block, rx: make(chan rxPacket, 16)}
}

func (f *fakeBottom) ReadFrom(b []byte) (int, net.Addr, error) {
	select {
	case <-f.closed:
		return 0, nil, net.ErrClosed
	default:
	}
	select {
	case p := <-f.rx:
		select {
		case <-f.closed: // closed wins over queued data (a plain select would choose at random)
			return 0, nil, net.ErrClosed
		default:
		}
		a, _ := net.ResolveUDPAddr("udp", p.src)

		return copy(b, p.data), a, nil
	case <-f.closed:
		return 0, nil, net.ErrClosed
	}
}
func (f *fakeBottom) armed() bool { return !f.dl.IsZero() && !f.dl.After(time.Now()) }
func (f *fakeBottom) WriteTo(b []byte, _ net.Addr) (int, error) {
	zzmc.HarnessPoint("sock.write.enter")
	for {
		f.mu.Lock()
		select {
		case <-f.closed:
			f.mu.Unlock()

			return 0, net.ErrClosed
		default:
		}
		if f.armed() {
			f.mu.Unlock()

			return 0, os.ErrDeadlineExceeded
		}
		if !f.block {
			f.writes++
			f.mu.Unlock()

			return len(b), nil
		}
		w := f.wake
		f.mu.Unlock()
		zzmc.HarnessPoint("sock.write.block")
		select {
		case <-w:
		case <-f.closed:
			return 0, net.ErrClosed
		}
		zzmc.HarnessPoint("sock.write.woken")
	}
}

func (f *fakeBottom) SetWriteDeadline(t time.Time) error {
	zzmc.HarnessPoint("sock.setdl")
	f.mu.Lock()
	defer f.mu.Unlock()
	f.nSet++
	if f.nSet == f.failNth || (f.failClear && t.IsZero()) {
		f.failClear = false
		f.dlLog = append(f.dlLog, "FAIL")

		return errors.New("injected SetWriteDeadline failure") //nolint:err113
	}
	f.dl = t
	if t.IsZero() {
		f.dlLog = append(f.dlLog, "zero")
	} else {
		f.dlLog = append(f.dlLog, "now")
	}
	close(f.wake)
	f.wake = make(chan struct{})

	return nil
}

func (f *fakeBottom) makeWritable() {
	f.mu.Lock()
	f.block = false
	close(f.wake)
	f.wake = make(chan struct{})
	f.mu.Unlock()
}

func (f *fakeBottom) Close() error {
	f.mu.Lock()
	f.closes++
	f.mu.Unlock()
	f.once.Do(func() { close(f.closed) })

	return nil
}
func (f *fakeBottom) LocalAddr() net.Addr {
	if f.wildcard {
		return &net.UDPAddr{IP: net.IPv4zero, Port: 7000}
	}

	return &net.UDPAddr{IP: net.ParseIP("10.0.0.1"), Port: 7000}
}
func (f *fakeBottom) SetDeadline(time.Time) error     { return nil }
func (f *fakeBottom) SetReadDeadline(time.Time) error { return nil }

// fakeBottomAP is the same socket offering netip.AddrPort I/O (what a *net.UDPConn is adapted to).
type fakeBottomAP struct{ *fakeBottom }

func (f fakeBottomAP) ReadFromAddrPort(b []byte) (int, netip.AddrPort, error) {
	n, a, err := f.fakeBottom.ReadFrom(b)
	if err != nil {
		return n, netip.AddrPort{}, err
	}

	return n, a.(*net.UDPAddr).AddrPort(), nil //nolint:forcetypeassert
}

func (f fakeBottomAP) WriteToAddrPort(b []byte, a netip.AddrPort) (int, error) {
	return f.fakeBottom.WriteTo(b, net.UDPAddrFromAddrPort(a))
}

func c13writeAbort(block bool, failNth int, twoAborts, ctxWriter bool, addrPort ...bool) zzmc.Scenario {
	return zzmc.Scenario{
		Name:     "writeabort",
		Focus:    []string{"udp_mux.go"},
		MaxSteps: 900,
		Setup: func(s *zzmc.Sched) func(string) (string, string) {
			fb := newFakeBottom(block)
			if failNth > 0 {
				fb.failNth = failNth
			}
			if failNth < 0 {
				fb.failClear = true
			}
			var sock net.PacketConn = fb
			ap := len(addrPort) > 0 && addrPort[0]
			if ap {
				sock = fakeBottomAP{fb}
			}
			m := NewUDPMuxDefault(UDPMuxParams{UDPConn: sock, Logger: nopLogger{}})
			c1, err := m.GetConn("u1", fb.LocalAddr())
			if err != nil {
				panic(err)
			}
			c2, _ := m.GetConn("u2", fb.LocalAddr())
			dst := &net.UDPAddr{IP: net.ParseIP("10.0.0.9").To4(), Port: 9}
			var e1, e2, ea, ea2 error
			var d1, d2 bool
			ctx, cancel := context.WithCancel(context.Background())
			if ctxWriter {
				s.Go("W1", func() { _, e1 = m.writeToContext(ctx, []byte("a"), dst); d1 = true })
				s.Go("X", func() { zzmc.HarnessPoint("cancel"); cancel() })
			} else {
				s.Go("W1", func() { _, e1 = c1.WriteTo([]byte("a"), dst); d1 = true })
			}
			if ap { // the second writer uses the AddrPort path of its handle
				s.Go("W2", func() {
					_, e2 = c2.(AddrPortReaderWriter).WriteToAddrPort([]byte("b"), dst.AddrPort()) //nolint:forcetypeassert
					d2 = true
				})
			} else {
				s.Go("W2", func() { _, e2 = c2.WriteTo([]byte("b"), dst); d2 = true })
			}
			s.Go("A", func() { ea = c1.(writeAborter).abortWrite() }) //nolint:forcetypeassert
			if twoAborts {
				s.Go("A2", func() { ea2 = c2.(writeAborter).abortWrite() }) //nolint:forcetypeassert
			}
			s.Go("ENV", func() { // the socket eventually becomes writable
				zzmc.HarnessPoint("sock.env.drain")
				fb.makeWritable()
			})

			return func(dead string) (string, string) {
				cancel()
				fail := ""
				if dead != "" {
					fb.makeWritable()
					_ = fb.Close()
				}
				if !d1 || !d2 {
					fail += "WRITE-NOT-RETURNED "
				}
				if st := m.writeState.Load(); st != 0 {
					fail += fmt.Sprintf("WRITESTATE=%x ", st)
				}
				fb.mu.Lock()
				log := fmt.Sprint(fb.dlLog)
				armedAtEnd := !fb.dl.IsZero()
				fb.block = false
				fb.mu.Unlock()
				if armedAtEnd {
					fail += "DEADLINE-LEFT-ARMED "
				}
				if dead == "" && m.writeState.Load() == 0 {
					if _, err := c2.WriteTo([]byte("probe"), dst); err != nil {
						fail += "PROBE-WRITE-FAILED:" + err.Error() + " "
					}
				}
				out := fmt.Sprintf("e1=%v e2=%v ea=%v ea2=%v dl=%s", e1 != nil, e2 != nil, ea != nil, ea2 != nil, log)
				_ = c1.Close()
				_ = c2.Close()
				_ = m.Close()

				return out, fail
			}
		},
	}
}

// c13refcount: two handles on one per-ufrag connection, a sibling ufrag on the same mux.
func c13refcount(addrPort ...bool) zzmc.Scenario {
	ap := len(addrPort) > 0 && addrPort[0]

	return zzmc.Scenario{
		Name:     "refcount-udp",
		Focus:    []string{"udp_mux.go", "udp_muxed_conn.go", "shared_packet_conn.go"},
		MaxSteps: 1200,
		Setup: func(s *zzmc.Sched) func(string) (string, string) {
			fb := newFakeBottom(false)
			fb.wildcard = true
			var sock net.PacketConn = fb
			if ap { // the socket offers AddrPort I/O: the handles are then the AddrPort flavour of the shared wrapper
				sock = fakeBottomAP{fb}
			}
			m := NewUDPMuxDefault(UDPMuxParams{UDPConn: sock, Logger: nopLogger{}, Net: vNet{}})
			h1, err := m.GetConn("u1", fb.LocalAddr())
			if err != nil {
				panic(err)
			}
			h2, _ := m.GetConn("u1", fb.LocalAddr())
			other, _ := m.GetConn("u2", fb.LocalAddr())
			// the same ufrag in the other IP family is a connection of its own, with its own references
			six, err := m.GetConn("u1", &net.UDPAddr{IP: net.ParseIP("2001:db8::1"), Port: 7000})
			if err != nil {
				panic(err)
			}
			under6 := m.connsIPv6["u1"]
			under := m.connsIPv4["u1"]
			dst := &net.UDPAddr{IP: net.ParseIP("10.0.0.9").To4(), Port: 9}
			fail := ""
			h1closed, h2closing := false, false
			var r1err, r2err, w2err, c1err, c1berr error
			r1done, r2done := false, false
			underClosed := func() bool {
				select {
				case <-under.CloseChannel():
					return true
				default:
					return false
				}
			}
			s.Go("R1", func() { // blocked read on handle 1
				_, _, r1err = h1.ReadFrom(make([]byte, 64))
				r1done = true
				if r1err == nil {
					fail += "H1-READ-RETURNED-DATA "
				}
			})
			s.Go("C1", func() {
				c1err = h1.Close()
				h1closed = true
				if uc := underClosed(); uc && !h2closing { // observed closed first, and the sibling's own Close has not even begun afterwards
					fail += "UNDERLYING-CLOSED-WHILE-SIBLING-OPEN "
				}
				if _, err := h1.WriteTo([]byte("x"), dst); err == nil {
					fail += "WRITE-ON-CLOSED-HANDLE-SUCCEEDED "
				}
				if _, _, err := h1.ReadFrom(make([]byte, 8)); err == nil {
					fail += "READ-ON-CLOSED-HANDLE-SUCCEEDED "
				}
				if apc, ok := h1.(AddrPortReaderWriter); ok {
					if _, err := apc.WriteToAddrPort([]byte("x"), dst.AddrPort()); err == nil {
						fail += "ADDRPORT-WRITE-ON-CLOSED-HANDLE-SUCCEEDED "
					}
					if _, _, err := apc.ReadFromAddrPort(make([]byte, 8)); err == nil {
						fail += "ADDRPORT-READ-ON-CLOSED-HANDLE-SUCCEEDED "
					}
				} else if ap {
					fail += "HANDLE-OVER-AN-ADDRPORT-SOCKET-LACKS-ADDRPORT-IO "
				}
				c1berr = h1.Close() // closing twice must not release a second reference
				if uc := underClosed(); uc && !h2closing { // observed closed first, and the sibling's own Close has not even begun afterwards
					fail += "SECOND-CLOSE-RELEASED-SIBLING-REFERENCE "
				}
			})
			s.Go("C1B", func() { // a second, overlapping Close of the same handle releases nothing more
				_ = h1.Close()
				if uc := underClosed(); uc && !h2closing {
					fail += "OVERLAPPING-CLOSE-OF-ONE-HANDLE-RELEASED-THE-SIBLING'S-REFERENCE "
				}
			})
			s.Go("W2", func() { // the sibling keeps working until its own close
				_, w2err = h2.WriteTo([]byte("y"), dst)
				if w2err != nil && !h2closing {
					fail += "SIBLING-WRITE-FAILED:" + w2err.Error() + " "
				}
			})
			s.Go("R2", func() {
				_, _, r2err = h2.ReadFrom(make([]byte, 64))
				r2done = true
				if !h2closing {
					fail += fmt.Sprintf("SIBLING-READ-ENDED-BEFORE-ITS-CLOSE(%v) ", r2err)
				}
			})
			s.Go("C2", func() {
				zzmc.HarnessPoint("c2")
				h2closing = true
				_ = h2.Close()
				if h1closed && !underClosed() {
					fail += "UNDERLYING-NOT-CLOSED-AFTER-LAST-HANDLE "
				}
			})

			return func(dead string) (string, string) {
				if dead != "" {
					_ = h1.Close()
					_ = h2.Close()
				}
				if !r1done || !r2done {
					fail += "BLOCKED-READ-NOT-RELEASED "
				}
				if r1err != nil && !errors.Is(r1err, io.ErrClosedPipe) && !errors.Is(r1err, io.EOF) {
					fail += "H1-READ-ERROR-NOT-CLOSED:" + r1err.Error() + " "
				}
				if c1err != nil || c1berr != nil {
					fail += "CLOSE-RETURNED-ERROR "
				}
				if !underClosed() {
					fail += "UNDERLYING-NEVER-CLOSED "
				}
				// the other ufrag on the same mux is untouched
				if _, err := other.WriteTo([]byte("z"), dst); err != nil {
					fail += "OTHER-UFRAG-BROKEN:" + err.Error() + " "
				}
				// ... and so is the IPv6 connection of the same ufrag: its only handle is still open
				select {
				case <-under6.CloseChannel():
					fail += "IPV6-CONNECTION-OF-THE-UFRAG-CLOSED-WITH-ITS-HANDLE-OPEN "
				default:
				}
				if _, err := six.WriteTo([]byte("6"), &net.UDPAddr{IP: net.ParseIP("2001:db8::9"), Port: 9}); err != nil {
					fail += "IPV6-HANDLE-BROKEN:" + err.Error() + " "
				}
				m.mu.Lock()
				if m.connsIPv6["u1"] != under6 {
					fail += "IPV6-CONNECTION-OF-THE-UFRAG-UNREGISTERED "
				}
				m.mu.Unlock()
				_ = six.Close()
				out := fmt.Sprintf("r1=%v r2=%v w2=%v", r1err, r2err, w2err)
				_ = other.Close()
				_ = m.Close()
				if strings.Contains(fail, "dummy") {
					fail = ""
				}

				return out, fail
			}
		},
	}
}

func checkC13(c *runCtx) {
	c.assume("sequential consistency between scheduling points (every atomic, mutex, channel operation, go statement and Gosched of the mux files; the fake socket adds points around its blocking write and SetWriteDeadline)",
		"spin loops are scheduled with the fair-yield rule (a yielding thread is disabled until every thread enabled at that moment has stepped), so starvation by an unfair scheduler is not reported as a livelock",
		"the TCP mux handles use the same sharedPacketConn wrapper; their routing and teardown are C15's subject")
	dl := c01deadline(c, 400, 1200)
	b := 3
	if !c.quick() {
		b = 4
	}
	s14 := func(f zzmc.Failure) string {
		// classifier S14: the injected fault is on the SetWriteDeadline(zero) call; symptom = deadline left armed / later writes fail
		if strings.Contains(f.Msg, "DEADLINE-LEFT-ARMED") || strings.Contains(f.Msg, "PROBE-WRITE-FAILED") {
			return "S14"
		}

		return ""
	}
	csExplore(c, "writeabort", b, dl, nil)
	csExplore(c, "writeabort-nonblocking", b, dl, nil)
	csExplore(c, "writeabort-two-aborts", b, dl, nil)
	csExplore(c, "writeabort-ctx-writer", b, dl, nil)
	csExplore(c, "writeabort-arming-fails", b, dl, nil)
	csExplore(c, "writeabort-clearing-fails", b, dl, s14)
	csExplore(c, "writeabort-addrport", b, dl, nil)
	csExplore(c, "writeabort-addrport-ctx-writer", b-1, dl, nil)
	csExplore(c, "refcount-udp", b, dl, nil)
	csExplore(c, "refcount-udp-addrport", b-1, dl, nil)
	csExplore(c, "refcount-tcp", b, dl, nil)
	csExplore(c, "refcount-udp-inbound", b, dl, nil)
	// reference counting against re-acquisition: the last handle is closed while GetConn asks for the same ufrag again
	csExplore(c, "mux-close-vs-getconn", b+1, dl, nil)
	csExplore(c, "tcpmux-close-vs-getconn", b+1, dl, nil)
}
