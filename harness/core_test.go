package ice

// Verification harness core: check registry, evidence writer, known findings,
// violation reporting. Overlaid into /repo at build time (never committed there).

import (
	"bytes"
	"crypto/sha256"
	"encoding/hex"
	"encoding/json"
	"fmt"
	"io"
	"os"
	"os/exec"
	"path/filepath"
	"runtime"
	"sort"
	"strconv"
	"strings"
	"sync"
	"testing"
	"time"

	"github.com/pion/logging"
)

// ---------------------------------------------------------------- registry

type checkFn func(c *runCtx)

var vChecks = map[string]checkFn{}     //nolint:gochecknoglobals
var vReplayers = map[string]replayFn{} //nolint:gochecknoglobals
type replayFn func(c *runCtx, raw json.RawMessage) (observation string)

func registerCheck(id string, f checkFn) { vChecks[id] = f }

// ---------------------------------------------------------------- run context

type knownFinding struct {
	Property    string `json:"property"`
	ID          string `json:"id"`
	Status      string `json:"status"` // open | fixed
	Commit      string `json:"commit,omitempty"`
	Predicate   string `json:"predicate"`
	Description string `json:"description"`
}

type runCtx struct {
	t     *testing.T
	prop  string
	tier  string
	seed  int64
	start time.Time

	mu          sync.Mutex
	level       string
	cov         map[string]any
	assumptions []string
	samples     []any
	known       []knownFinding
	knownHit    map[string]int // finding id -> occurrences
	knownEx     map[string]string
	violations  int
	violKeys    map[string]bool
	engineErr   []string
	exhaustive  bool
	capsHit     []string
	replayOnly  bool
}

func (c *runCtx) quick() bool { return c.tier != "thorough" }

func (c *runCtx) violationCount() int {
	c.mu.Lock()
	defer c.mu.Unlock()

	return c.violations
}

func (c *runCtx) setLevel(l string) { c.level = l }

func (c *runCtx) assume(s ...string) {
	c.mu.Lock()
	c.assumptions = append(c.assumptions, s...)
	c.mu.Unlock()
}

// add accumulates integer counters in the coverage map.
func (c *runCtx) add(key string, n int) {
	c.mu.Lock()
	cur, _ := c.cov[key].(int)
	c.cov[key] = cur + n
	c.mu.Unlock()
}

func (c *runCtx) set(key string, v any) {
	c.mu.Lock()
	c.cov[key] = v
	c.mu.Unlock()
}

func (c *runCtx) get(key string) int {
	c.mu.Lock()
	defer c.mu.Unlock()
	cur, _ := c.cov[key].(int)

	return cur
}

func (c *runCtx) sample(v any) {
	c.mu.Lock()
	if len(c.samples) < 12 {
		c.samples = append(c.samples, v)
	}
	c.mu.Unlock()
}

// capHit records that some cap (time, depth, states) cut the exploration short.
func (c *runCtx) capHit(what string) {
	c.mu.Lock()
	c.capsHit = append(c.capsHit, what)
	c.exhaustive = false
	c.mu.Unlock()
}

func (c *runCtx) engineError(format string, args ...any) {
	c.mu.Lock()
	c.engineErr = append(c.engineErr, fmt.Sprintf(format, args...))
	c.mu.Unlock()
}

// violation reports one failing case. finding is the id of the classifier that
// recognised the root cause ("" when none did). replay is any JSON-able value
// that re-creates the failing case.
func (c *runCtx) violation(finding, msg string, replay any) {
	c.mu.Lock()
	defer c.mu.Unlock()
	if finding != "" {
		for _, k := range c.known {
			if k.ID == finding && k.Property == c.prop && k.Status == "open" {
				c.knownHit[finding]++
				if c.knownEx[finding] == "" {
					c.knownEx[finding] = msg
				}

				return
			}
		}
	}
	// dedup on the message (the same root cause shows up in many states)
	mk := finding + "|" + msg
	if len(mk) > 300 {
		mk = mk[:300]
	}
	if c.violKeys[mk] {
		c.violations++

		return
	}
	c.violKeys[mk] = true
	c.violations++
	if len(c.violKeys) > 20 {
		return
	}
	body := map[string]any{"property": c.prop, "tier": c.tier, "finding": finding, "message": msg, "case": replay}
	raw, _ := json.MarshalIndent(body, "", " ")
	sum := sha256.Sum256(raw)
	dir := os.Getenv("VERIF_REPLAYS")
	if dir == "" {
		dir = "/verif/replays"
	}
	_ = os.MkdirAll(dir, 0o755)
	path := filepath.Join(dir, fmt.Sprintf("%s-%s.json", c.prop, hex.EncodeToString(sum[:6])))
	_ = os.WriteFile(path, raw, 0o644)
	fmt.Printf("VIOLATION property=%s replay=%s\n", c.prop, path)
	fmt.Printf("  detail: %s\n", msg)
}

func (c *runCtx) finish() int {
	c.mu.Lock()
	defer c.mu.Unlock()
	ids := make([]string, 0, len(c.knownHit))
	for id := range c.knownHit {
		ids = append(ids, id)
	}
	sort.Strings(ids)
	kf := []any{}
	for _, id := range ids {
		desc := ""
		for _, k := range c.known {
			if k.ID == id && k.Property == c.prop {
				desc = k.Description
			}
		}
		fmt.Printf("KNOWN-FINDING: property=%s %s: %s (%d cases, e.g. %s)\n", c.prop, id, desc, c.knownHit[id], c.knownEx[id])
		kf = append(kf, map[string]any{"id": id, "cases": c.knownHit[id], "example": c.knownEx[id]})
	}
	c.cov["known_findings_observed"] = kf
	c.cov["samples"] = c.samples
	if len(c.samples) == 0 {
		c.cov["samples"] = []any{"(no sample recorded)"}
	}
	c.cov["exhaustive"] = c.exhaustive && len(c.engineErr) == 0
	if len(c.capsHit) > 0 {
		c.cov["caps_hit"] = c.capsHit
	}
	if len(c.engineErr) > 0 {
		c.cov["engine_errors"] = c.engineErr
	}
	ev := map[string]any{
		"property_id": c.prop,
		"tier":        c.tier,
		"seed":        c.seed,
		"level":       c.level,
		"coverage":    c.cov,
		"assumptions": c.assumptions,
		"wall_s":      time.Since(c.start).Seconds(),
		"violations":  c.violations,
	}
	if c.assumptions == nil {
		ev["assumptions"] = []string{}
	}
	if !c.replayOnly {
		out := os.Getenv("VERIF_EVIDENCE")
		if out == "" {
			out = "/verif/evidence/" + c.prop + ".json"
		}
		raw, _ := json.MarshalIndent(ev, "", " ")
		_ = os.MkdirAll(filepath.Dir(out), 0o755)
		if err := os.WriteFile(out, append(raw, '\n'), 0o644); err != nil {
			fmt.Printf("ENGINE-ERROR: cannot write evidence: %v\n", err)

			return 2
		}
	}
	sum := []string{}
	for _, k := range []string{"states", "transitions", "traces_validated_against_impl", "evaluations", "distinct_nontrivial", "executions", "distinct_outcomes"} {
		if v, ok := c.cov[k]; ok {
			sum = append(sum, fmt.Sprintf("%s=%v", k, v))
		}
	}
	fmt.Printf("SUMMARY property=%s tier=%s %s exhaustive=%v violations=%d wall=%.1fs\n", c.prop, c.tier, strings.Join(sum, " "), c.cov["exhaustive"], c.violations, time.Since(c.start).Seconds())
	for _, e := range c.engineErr {
		fmt.Printf("ENGINE-ERROR: %s\n", e)
	}
	if c.violations > 0 {
		return 1
	}
	if len(c.engineErr) > 0 {
		return 2
	}

	return 0
}

func newRunCtx(t *testing.T, prop string) *runCtx {
	c := &runCtx{
		t: t, prop: prop, tier: os.Getenv("VERIF_TIER"), start: time.Now(),
		cov: map[string]any{}, knownHit: map[string]int{}, knownEx: map[string]string{},
		violKeys: map[string]bool{}, exhaustive: true, level: "model_checking",
	}
	if c.tier == "" {
		c.tier = "quick"
	}
	if s := os.Getenv("VERIF_SEED"); s != "" {
		c.seed, _ = strconv.ParseInt(s, 10, 64)
	}
	kp := os.Getenv("VERIF_KNOWN")
	if kp == "" {
		kp = "/verif/known_findings.json"
	}
	if raw, err := os.ReadFile(kp); err == nil {
		var doc struct {
			Findings []knownFinding `json:"findings"`
		}
		if err := json.Unmarshal(raw, &doc); err != nil {
			c.engineError("known_findings.json: %v", err)
		}
		c.known = doc.Findings
	}

	return c
}

// TestVerifMain is the entry point used by bin/check.
func TestVerifMain(t *testing.T) {
	prop := os.Getenv("VERIF_CHECK")
	if prop == "" {
		t.Skip("VERIF_CHECK not set")
	}
	defer func() { // coverage survey only: leave through the testing package (see vexit)
		if r := recover(); r != nil {
			if _, ok := r.(surveyExit); !ok {
				panic(r)
			}
		}
	}()
	f, ok := vChecks[prop]
	if !ok {
		fmt.Printf("ENGINE-ERROR: no check registered for %q\n", prop)
		vexit(2)
	}
	c := newRunCtx(t, prop)
	f(c)
	code := c.finish()
	vexit(code)
}

// TestVerifReplay re-executes a replay file twice and asserts identical observations.
func TestVerifReplay(t *testing.T) {
	path := os.Getenv("VERIF_REPLAY")
	if path == "" {
		t.Skip("VERIF_REPLAY not set")
	}
	raw, err := os.ReadFile(path)
	if err != nil {
		t.Fatal(err)
	}
	var doc struct {
		Property string          `json:"property"`
		Message  string          `json:"message"`
		Case     json.RawMessage `json:"case"`
	}
	if err := json.Unmarshal(raw, &doc); err != nil {
		t.Fatal(err)
	}
	r, ok := vReplayers[doc.Property]
	if !ok {
		fmt.Printf("no replayer for %s; case: %s\n", doc.Property, doc.Case)
		vexit(2)
	}
	c := newRunCtx(t, doc.Property)
	c.replayOnly = true
	o1 := r(c, doc.Case)
	o2 := r(c, doc.Case)
	fmt.Printf("recorded: %s\nreplay-1: %s\nreplay-2: %s\n", doc.Message, o1, o2)
	if o1 != o2 {
		fmt.Println("ENGINE-ERROR: replay is not deterministic")
		vexit(2)
	}
	if o1 != "" {
		fmt.Printf("VIOLATION property=%s replay=%s\n", doc.Property, path)
		vexit(1)
	}
	vexit(0)
}

// ---------------------------------------------------------------- helpers

// parallelFor runs f(i) for i in [0,n) on all cores (BE checks: pure code, no bubble).
func parallelFor(n int, f func(i int)) {
	w := runtime.NumCPU()
	if w > n {
		w = n
	}
	if w < 1 {
		w = 1
	}
	var wg sync.WaitGroup
	var next int64
	var mu sync.Mutex
	for k := 0; k < w; k++ {
		wg.Add(1)
		go func() {
			defer wg.Done()
			for {
				mu.Lock()
				i := int(next)
				next++
				mu.Unlock()
				if i >= n {
					return
				}
				f(i)
			}
		}()
	}
	wg.Wait()
}

// distinctCounter counts distinct string classes concurrently.
type distinctCounter struct {
	mu sync.Mutex
	m  map[string]int
}

func newDistinct() *distinctCounter { return &distinctCounter{m: map[string]int{}} }
func (d *distinctCounter) note(k string) {
	d.mu.Lock()
	d.m[k]++
	d.mu.Unlock()
}
func (d *distinctCounter) count() int { d.mu.Lock(); defer d.mu.Unlock(); return len(d.m) }
func (d *distinctCounter) top(n int) map[string]int {
	d.mu.Lock()
	defer d.mu.Unlock()
	keys := make([]string, 0, len(d.m))
	for k := range d.m {
		keys = append(keys, k)
	}
	sort.Strings(keys)
	out := map[string]int{}
	for i, k := range keys {
		if i >= n {
			break
		}
		out[k] = d.m[k]
	}

	return out
}

// safely runs f and converts a panic into an error string.
func safely(f func()) (panicMsg string) {
	defer func() {
		if r := recover(); r != nil {
			panicMsg = fmt.Sprint(r)
		}
	}()
	f()

	return ""
}

// ---------------------------------------------------------------- silent logging

type nopLogger struct{}

func (nopLogger) Trace(string)          {}
func (nopLogger) Tracef(string, ...any) {}
func (nopLogger) Debug(string)          {}
func (nopLogger) Debugf(string, ...any) {}
func (nopLogger) Info(string)           {}
func (nopLogger) Infof(string, ...any)  {}
func (nopLogger) Warn(string)           {}
func (nopLogger) Warnf(string, ...any)  {}
func (nopLogger) Error(string)          {}
func (nopLogger) Errorf(string, ...any) {}

type nopFactory struct{}

func (nopFactory) NewLogger(string) logging.LeveledLogger { return nopLogger{} }

// ---------------------------------------------------------------- process sharding for bubble-heavy BE loops

type shardViolation struct {
	Finding string          `json:"finding"`
	Msg     string          `json:"msg"`
	Replay  json.RawMessage `json:"replay"`
}

type shardSink struct {
	Violations []shardViolation `json:"violations"`
	Counters   map[string]int   `json:"counters"`
	Distinct   map[string]int   `json:"distinct"`
	Samples    []any            `json:"samples"`
}

func (s *shardSink) violation(finding, msg string, replay any) {
	raw, _ := json.Marshal(replay)
	if len(s.Violations) < 200 {
		s.Violations = append(s.Violations, shardViolation{finding, msg, raw})
	}
	s.Counters["violations_raw"]++
}
func (s *shardSink) add(k string, n int) { s.Counters[k] += n }
func (s *shardSink) note(class string)   { s.Distinct[class]++ }

// runSharded runs body(shard, shards, sink) in VERIF_WORKERS child processes (the same test binary,
// same check, VERIF_SHARD=name:i/n) and merges the sinks: violations are re-reported through c,
// counters are added, distinct classes are united (returned).
func runSharded(c *runCtx, name string, body func(shard, shards int, sink *shardSink)) map[string]int {
	if env := os.Getenv("VERIF_SHARD"); env != "" {
		var nm string
		var i, n int
		if idx := strings.LastIndex(env, ":"); idx > 0 {
			nm = env[:idx]
			fmt.Sscanf(env[idx+1:], "%d/%d", &i, &n) //nolint:errcheck
		}
		if nm != name {
			return nil // a child for another sharded section of the same check
		}
		sink := &shardSink{Counters: map[string]int{}, Distinct: map[string]int{}}
		body(i, n, sink)
		raw, _ := json.Marshal(sink)
		f := os.NewFile(3, "sink")
		_, _ = f.Write(append(raw, '\n'))
		_ = f.Close()
		vexit(0)
	}
	n, _ := strconv.Atoi(os.Getenv("VERIF_WORKERS"))
	if n <= 0 {
		n = 8
	}
	merged := map[string]int{}
	var mu sync.Mutex
	var wg sync.WaitGroup
	for i := 0; i < n; i++ {
		wg.Add(1)
		go func(i int) {
			defer wg.Done()
			pr, pw, err := os.Pipe()
			if err != nil {
				c.engineError("pipe: %v", err)

				return
			}
			cmd := exec.Command(os.Args[0], childArgs("-test.run", "^TestVerifMain$", "-test.timeout", "0")...) //nolint:gosec
			cmd.Env = append(os.Environ(), fmt.Sprintf("VERIF_SHARD=%s:%d/%d", name, i, n), "GOMAXPROCS=2")
			cmd.ExtraFiles = []*os.File{pw}
			var stderr bytes.Buffer
			cmd.Stderr, cmd.Stdout = &stderr, &stderr
			if err := cmd.Start(); err != nil {
				c.engineError("start shard: %v", err)

				return
			}
			_ = pw.Close()
			raw, _ := io.ReadAll(pr)
			_ = cmd.Wait()
			var sink shardSink
			if err := json.Unmarshal(raw, &sink); err != nil {
				tail := stderr.String()
				if len(tail) > 2500 {
					tail = tail[len(tail)-2500:]
				}
				c.engineError("[%s] shard %d/%d died without result: %s", name, i, n, tail)

				return
			}
			for _, v := range sink.Violations {
				c.violation(v.Finding, v.Msg, v.Replay)
			}
			mu.Lock()
			for k, v := range sink.Counters {
				if k != "violations_raw" {
					c.add(k, v)
				}
			}
			for k, v := range sink.Distinct {
				merged[k] += v
			}
			mu.Unlock()
			for _, s := range sink.Samples {
				c.sample(s)
			}
		}(i)
	}
	wg.Wait()

	return merged
}

// childArgs: arguments for a child process of the check. In the coverage survey (developer aid, bin/check cover)
// every process of a run writes its own coverage counters to the directory named by VERIF_COVER.
func childArgs(args ...string) []string {
	if dir := os.Getenv("VERIF_COVER"); dir != "" {
		args = append(args, "-test.gocoverdir="+dir)
	}

	return args
}

// vexit ends the process; in the coverage survey the counters are written first (os.Exit skips the test binary's own flush).
func vexit(code int) {
	if os.Getenv("VERIF_COVER") != "" {
		// the test binary writes its coverage counters only when the test function ends and the process leaves through
		// the testing package; the exit code of a survey run is not used
		panic(surveyExit{code})
	}
	os.Exit(code)
}

type surveyExit struct{ code int }
