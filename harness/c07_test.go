package ice

// C07 — application data travels only over validated pairs and only from known peers. Engine VT:
// the two-agent world with a reader per side, data writes and foreign injections placed at every
// position of the default session (deviation-bounded).

import (
	"io"
	"bytes"
	"context"
	"encoding/binary"
	"encoding/json"
	"errors"
	"fmt"
	"net"
	"net/netip"
	"os"
	"strconv"
	"strings"
	"testing/synctest"
	"time"

	"github.com/pion/stun/v3"
)

func init() {
	registerCheck("C07", checkC07)
	vReplayers["C07"] = vtReplay
	vtModels["data"] = func(cfg json.RawMessage) vtModel { return newDataModel(cfg) }
}

type dataSide struct {
	read       [][]byte // what the reader goroutine got from Conn.Read
	expect     [][]byte // what the reference says it must get, in order
	sentTally  uint64   // payload bytes accepted by Write
	readTally  uint64   // payload bytes returned by Read
	pairSel    string   // selected pair the pair tallies refer to
	pairSentB  uint64
	pairSentP  uint32
	pairRecvB  uint64
	pairRecvP  uint32
	readerDone chan struct{}
}

type dataModel struct {
	*pairModel
	ds      [2]*dataSide
	foreign *vsock
	writes  int
}

func c07payload(kind string) []byte {
	mk := func(n int, first byte) []byte {
		b := make([]byte, n)
		for i := range b {
			b[i] = byte(i*13) | 0x40 // never looks like STUN: first two bits of byte 0 set via first
		}
		if n > 0 {
			b[0] = first
		}

		return b
	}
	switch kind {
	case "1":
		return mk(1, 0x80)
	case "19":
		return mk(19, 0x80)
	case "20":
		return mk(20, 0x80)
	case "1200":
		return mk(1200, 0x90)
	case "8192":
		return mk(8192, 0x80)
	case "stun":
		m, _ := stun.Build(stun.BindingRequest, stun.TransactionID, stun.NewSoftware("looks like STUN"), stun.Fingerprint)

		return append([]byte{}, m.Raw...)
	case "trunc": // a STUN header with the cookie that announces 32 bytes of attributes and carries 8: IsMessage, undecodable
		b := make([]byte, 28)
		b[1], b[3] = 0x01, 32
		b[4], b[5], b[6], b[7] = 0x21, 0x12, 0xA4, 0x42
		for i := 8; i < 28; i++ {
			b[i] = byte(i)
		}

		return b
	case "cookie": // 20 bytes, first two bits zero, magic cookie in place, nothing else valid
		b := make([]byte, 20)
		b[1] = 0x01
		b[4], b[5], b[6], b[7] = 0x21, 0x12, 0xA4, 0x42

		return b
	}
	panic("payload kind " + kind)
}

func newDataModel(raw json.RawMessage) *dataModel {
	m := &dataModel{pairModel: &pairModel{pairWorld: newPairWorld(raw)}}
	m.foreign = m.newSock("x", "10.0.9.9", 9999, "")
	for i := range m.side {
		ds := &dataSide{readerDone: make(chan struct{})}
		m.ds[i] = ds
		conn := m.side[i].conn
		go func() {
			defer close(ds.readerDone)
			size := 16384
			if m.cfg.ReadBuf > 0 {
				size = m.cfg.ReadBuf
			}
			buf := make([]byte, size)
			for {
				n, err := conn.Read(buf)
				if err != nil && !errors.Is(err, io.ErrShortBuffer) {
					return
				}
				// a datagram larger than the buffer is cut short: n bytes were returned all the same, and count
				ds.read = append(ds.read, append([]byte{}, buf[:n]...))
				ds.readTally += uint64(n) //nolint:gosec
			}
		}()
	}
	// reference for the reader: data datagrams delivered from a known remote on the same transport
	prev := m.onDeliver
	m.onDeliver = func(dst *vsock, src string, data []byte) {
		prev(dst, src, data)
		i := m.sideOfSock(dst)
		if i < 0 || stun.IsMessage(data) {
			return
		}
		a := m.side[i].agent
		known := false
		_ = a.loop.Run(a.loop, func(context.Context) {
			for _, c := range a.remoteCandidates[NetworkTypeUDP4] {
				known = known || c.addr().String() == src
			}
		})
		if known && !dst.isClosed() {
			m.ds[i].expect = append(m.ds[i].expect, append([]byte{}, data...))
			if a.getSelectedPair() != nil {
				m.ds[i].pairRecvB += uint64(len(data))
				m.ds[i].pairRecvP++
			}
		}
	}
	synctest.Wait()

	return m
}

func (m *dataModel) selKey(i int) string {
	sp := m.side[i].agent.getSelectedPair()
	if sp == nil {
		return ""
	}

	return sp.Local.addr().String() + ">" + sp.Remote.addr().String()
}

var c07payloads = []string{"1", "19", "20", "1200", "8192", "stun", "cookie", "trunc"} //nolint:gochecknoglobals

func (m *dataModel) extras() []string {
	var evs []string
	if m.writes >= 2 {
		return nil
	}
	for i := range m.side {
		for _, k := range c07payloads {
			evs = append(evs, fmt.Sprintf("write:%d:%s", i, k))
		}
		for si := range m.side[i].socks {
			for _, src := range []string{"foreign", "peer-other", "peer-selected"} {
				kinds := []string{"20", "1200", "stun"}
				if src == "peer-selected" { // from the one source whose data is let through: everything that looks like STUN, decodable or not
					kinds = append(kinds, "cookie", "trunc")
				}
				for _, k := range kinds {
					evs = append(evs, fmt.Sprintf("inject:%d:%d:%s:%s", i, si, src, k))
				}
			}
			// unknown sources that differ from the selected remote in one component of the address only
			for _, src := range []string{"near-lowport", "near-highport", "near-ip"} {
				evs = append(evs, fmt.Sprintf("inject:%d:%d:%s:20", i, si, src))
			}
		}
	}

	return evs
}

func (m *dataModel) Enabled() []string {
	def := m.defaultEvent()
	var evs []string
	if def != "" {
		evs = append(evs, def)
	}
	if m.devs < m.cfg.Dev {
		for _, e := range m.all() {
			if e != def && !strings.HasPrefix(e, "dup") && !strings.HasPrefix(e, "drop") {
				evs = append(evs, e)
			}
		}
		evs = append(evs, m.extras()...)
	}

	return evs
}

func (m *dataModel) Apply(ev string) {
	f := strings.Split(ev, ":")
	switch f[0] {
	case "write":
		m.devs++
		m.writes++
		i, _ := strconv.Atoi(f[1])
		m.doWrite(i, f[2])
	case "inject":
		m.devs++
		m.writes++
		i, _ := strconv.Atoi(f[1])
		si, _ := strconv.Atoi(f[2])
		m.doInject(i, si, f[3], f[4])
	default:
		m.pairModel.Apply(ev)
	}
	m.checkReaders()
}

func (m *dataModel) doWrite(i int, kind string) {
	s := m.side[i]
	a := s.agent
	ds := m.ds[i]
	payload := c07payload(kind)
	sel := a.getSelectedPair()
	var best *CandidatePair
	_ = a.loop.Run(a.loop, func(context.Context) {
		for _, p := range a.checklist {
			if p.state == CandidatePairStateSucceeded && (best == nil || best.priority() < p.priority()) {
				best = p
			}
		}
	})
	n0 := len(m.sentLog)
	n, err := s.conn.Write(payload)
	synctest.Wait()
	emitted := m.sentLog[n0:]
	switch {
	case stun.IsMessage(payload):
		if err == nil || len(emitted) != 0 {
			m.problem("", "agent %s: Write of a %s payload that parses as STUN returned (%d,%v) and emitted %d datagram(s)", s.name, kind, n, err, len(emitted))
		}
	case sel == nil && best == nil:
		if err == nil || len(emitted) != 0 {
			m.problem("", "agent %s: Write without any validated pair returned (%d,%v) and emitted %d datagram(s)", s.name, n, err, len(emitted))
		} else if !errors.Is(err, ErrNoCandidatePairs) {
			m.problem("", "agent %s: Write without any validated pair failed with %v, want ErrNoCandidatePairs", s.name, err)
		}
	default:
		via := sel
		how := "selected"
		if via == nil {
			via, how = best, "best validated"
		}
		if err != nil || n != len(payload) || len(emitted) != 1 {
			m.problem("", "agent %s: Write(%s) with a %s pair returned (%d,%v) and emitted %d datagram(s)", s.name, kind, how, n, err, len(emitted))

			break
		}
		d := emitted[0]
		if !bytes.Equal(d.data, payload) {
			m.problem("", "agent %s: datagram on the wire differs from the payload written", s.name)
		}
		if wantSrc := m.sockNameOfLocal(via.Local); d.srcSock != wantSrc || d.dst != via.Remote.addr().String() {
			m.problem("", "agent %s: data left through %s to %s, the %s pair is %s>%s", s.name, d.srcSock, d.dst, how, wantSrc, via.Remote.addr())
		}
		ds.sentTally += uint64(n) //nolint:gosec
		if sel != nil {
			ds.pairSentB += uint64(n) //nolint:gosec
			ds.pairSentP++
		}
	}
}

func (m *dataModel) doInject(i, si int, src, kind string) {
	s := m.side[i]
	peer := m.side[1-i]
	to := s.socks[si]
	var from string
	switch src {
	case "foreign":
		from = m.foreign.addr.String()
	case "peer-selected":
		from = m.wireAddr(peer.socks[0])
		if sp := s.agent.getSelectedPair(); sp != nil {
			from = sp.Remote.addr().String()
		}
	case "near-lowport", "near-highport", "near-ip":
		base := m.wireAddr(peer.socks[0])
		if sp := s.agent.getSelectedPair(); sp != nil {
			base = sp.Remote.addr().String()
		}
		ap := netip.MustParseAddrPort(base)
		switch src {
		case "near-lowport":
			ap = netip.AddrPortFrom(ap.Addr(), ap.Port()^0x80)
		case "near-highport":
			ap = netip.AddrPortFrom(ap.Addr(), ap.Port()^0x100)
		default:
			b := ap.Addr().As4()
			b[2] ^= 0x40
			ap = netip.AddrPortFrom(netip.AddrFrom4(b), ap.Port())
		}
		from = ap.String()
	default:
		from = m.wireAddr(peer.socks[len(peer.socks)-1])
	}
	m.inject(to, from, c07payload(kind))
}

// checkReaders: the reader got exactly the expected datagrams, in order; counters equal the tallies.
func (m *dataModel) checkReaders() {
	for i, s := range m.side {
		ds := m.ds[i]
		if len(ds.read) > len(ds.expect) {
			m.problem("", "agent %s: the reader received %d datagram(s), only %d came from known remote candidates (last: %d bytes)", s.name, len(ds.read), len(ds.expect), len(ds.read[len(ds.read)-1]))
		} else if len(ds.read) < len(ds.expect) {
			m.problem("", "agent %s: %d data datagram(s) from known remotes were delivered, the reader received %d", s.name, len(ds.expect), len(ds.read))
		}
		for k := 0; k < len(ds.read) && k < len(ds.expect); k++ {
			want := ds.expect[k]
			if m.cfg.ReadBuf > 0 && len(want) > m.cfg.ReadBuf {
				want = want[:m.cfg.ReadBuf]
			}
			if !bytes.Equal(ds.read[k], want) {
				m.problem("", "agent %s: datagram %d reached the reader modified or out of order", s.name, k)

				break
			}
		}
		for _, p := range ds.read {
			if stun.IsMessage(p) {
				m.problem("", "agent %s: the reader yielded a datagram that parses as STUN", s.name)
			}
		}
		if s.conn.BytesSent() != ds.sentTally {
			m.problem("", "agent %s: Conn.BytesSent=%d, payload bytes accepted by Write=%d", s.name, s.conn.BytesSent(), ds.sentTally)
		}
		if s.conn.BytesReceived() != ds.readTally {
			m.problem("", "agent %s: Conn.BytesReceived=%d, payload bytes returned by Read=%d", s.name, s.conn.BytesReceived(), ds.readTally)
		}
		// per-pair counters while one pair stays selected
		cur := m.selKey(i)
		if cur != ds.pairSel {
			ds.pairSel = cur
			ds.pairSentB, ds.pairSentP, ds.pairRecvB, ds.pairRecvP = 0, 0, 0, 0
			if st, ok := s.agent.GetSelectedCandidatePairStats(); ok {
				// the pair may have carried data before it became selected (best-valid writes): start from its own counters
				ds.pairSentB, ds.pairSentP, ds.pairRecvB, ds.pairRecvP = st.BytesSent, st.PacketsSent, st.BytesReceived, st.PacketsReceived
			}
		} else if cur != "" {
			if st, ok := s.agent.GetSelectedCandidatePairStats(); ok {
				if st.BytesSent != ds.pairSentB || st.PacketsSent != ds.pairSentP || st.BytesReceived != ds.pairRecvB || st.PacketsReceived != ds.pairRecvP {
					m.problem("", "agent %s: selected pair counters sent %d B/%d pkts received %d B/%d pkts, tallies sent %d/%d received %d/%d", s.name,
						st.BytesSent, st.PacketsSent, st.BytesReceived, st.PacketsReceived, ds.pairSentB, ds.pairSentP, ds.pairRecvB, ds.pairRecvP)
				}
			}
		}
	}
}

func (m *dataModel) Key() (string, []int) {
	k, spent := m.pairModel.Key()
	for i := range m.side {
		ds := m.ds[i]
		k += fmt.Sprintf(" D%d[%d/%d r=%d e=%d ps=%d/%d pr=%d/%d]", i, ds.sentTally, ds.readTally, len(ds.read), len(ds.expect), ds.pairSentB, ds.pairSentP, ds.pairRecvB, ds.pairRecvP)
		// the implementation's own counters too: merging on the harness's tallies alone would hide a miscount in a visited state
		k += fmt.Sprintf(" I%d[%d/%d", i, m.side[i].conn.BytesSent(), m.side[i].conn.BytesReceived())
		if st, ok := m.side[i].agent.GetSelectedCandidatePairStats(); ok {
			k += fmt.Sprintf(" %d/%d %d/%d", st.BytesSent, st.PacketsSent, st.BytesReceived, st.PacketsReceived)
		}
		k += "]"
	}

	return k, append(spent, m.writes)
}

func (m *dataModel) Finish() []vtProblem { return nil }

func (m *dataModel) Close() {
	m.pairModel.Close()
	for _, ds := range m.ds {
		<-ds.readerDone // a blocked Read must be released by Close
	}
}

func checkC07(c *runCtx) {
	c.assume("payload kinds: 1, 19, 20, 1200, 8192 bytes of non-STUN data, a well-formed STUN message, 20 bytes carrying only the magic cookie, and a STUN header with the cookie whose announced length exceeds the datagram (undecodable)",
		"'known remote' is evaluated against the receiving agent's remote candidate set at the moment of delivery",
		"data writes and injections are deviations from the default session schedule; each execution carries at most two of them")
	p := newVTPool()
	defer p.close()
	dl := c01deadline(c, 240, 1500)
	h2 := []string{"host", "host"}
	dev := 2
	if !c.quick() {
		dev = 3
	}
	type sp struct {
		name string
		cfg  pairCfg
	}
	specs := []sp{
		{fmt.Sprintf("2x2 session, data and foreign traffic at every position, D<=%d", dev), pairCfg{KindsA: h2, KindsB: h2, Ticks: 3, Dev: dev, Renom: true}},
		{fmt.Sprintf("2x1 with restart, D<=%d", dev), pairCfg{KindsA: h2, KindsB: []string{"host"}, Ticks: 4, Dev: dev, Restarts: 1}},
		{fmt.Sprintf("1x1, the application reads with a 400-byte buffer (larger datagrams are cut short, the bytes returned still count), D<=%d", dev), pairCfg{KindsA: []string{"host"}, KindsB: []string{"host"}, Ticks: 3, Dev: dev, ReadBuf: 400}},
		{fmt.Sprintf("1x1 A behind NAT (prflx remote), D<=%d", dev), pairCfg{KindsA: []string{"nat"}, KindsB: []string{"host"}, Ticks: 3, Dev: dev}},
		{fmt.Sprintf("1x1, A's candidate is signalled only after the session is up (the selected pair's peer-reflexive remote is superseded while data flows), D<=%d", dev), pairCfg{KindsA: []string{"host"}, KindsB: []string{"host"}, HoldSignal: []string{"0:0"}, Ticks: 3, Dev: dev}},
		{fmt.Sprintf("2x1 trickled candidates (a peer-reflexive remote is superseded while data flows), D<=%d", dev), pairCfg{KindsA: h2, KindsB: []string{"host"}, Trickle: true, Ticks: 3, Dev: dev}},
	}
	if only := os.Getenv("VERIF_ONLY"); only != "" {
		var f []sp
		for _, s := range specs {
			if strings.Contains(s.name, only) {
				f = append(f, s)
			}
		}
		specs = f
	}
	for _, s := range specs {
		vtSearch(c, p, vtSpec{Name: s.name, Model: "data", Cfg: s.cfg, Deadline: dl})
	}
	// "on the same transport": one peer address over UDP (known) and TCP (never authenticated)
	if os.Getenv("VERIF_ONLY") == "" {
		probs, n := c07crossTransport(c.t)
		c.add("transitions", n)
		for _, pr := range probs {
			c.violation("", "same IP:port over UDP and TCP: "+pr, map[string]any{"part": "cross-transport"})
		}
	}
	// the same statement over a TCP candidate: framed data in both directions, every segmentation of a frame
	if os.Getenv("VERIF_ONLY") == "" || strings.Contains("tcp", os.Getenv("VERIF_ONLY")) {
		depth := 7
		if !c.quick() {
			depth = 8
		}
		vtSearch(c, p, vtSpec{Name: fmt.Sprintf("passive ICE-TCP candidate (TCPMux), framed data both ways, all sequences of length <= %d", depth), Model: "tcpdata",
			Cfg: gatherCfg{Ifaces: gIfacesBasic, NetTypes: []string{"tcp4"}, CandTypes: []string{"host"}, TCPMux: "10.0.0.1:7001", Depth: depth}, Deadline: dl})
		// the same with a UDP host candidate next to the mux: datagrams over UDP from the TCP peer's IP:port (known, later
		// selected, on TCP only) must not reach the reader at any point of the session
		vtSearch(c, p, vtSpec{Name: fmt.Sprintf("passive ICE-TCP candidate next to a UDP host candidate, UDP datagrams from the TCP peer's address, all sequences of length <= %d", depth-1), Model: "tcpdata",
			Cfg: gatherCfg{Ifaces: gIfacesBasic, NetTypes: []string{"udp4", "tcp4"}, CandTypes: []string{"host"}, TCPMux: "10.0.0.1:7001", Depth: depth - 1}, Deadline: dl})
	}
}

// ---------------------------------------------------------------- application data over a passive ICE-TCP candidate

// tcpDataModel: one agent (controlled) with a TCPMux host candidate; the scripted peer connects, is validated and
// nominated over the stream, and then data flows both ways in RFC 4571 frames while the byte stream is segmented
// in different ways. Oracle: the reader gets exactly the data frames the peer sent (same bytes, same order), what
// the agent writes arrives as one frame per Write with the same bytes, nothing that parses as STUN reaches the reader.
type tcpDataModel struct {
	*gatherWorld
	depth    int
	conn     *Conn
	client   *pipeEnd
	server   *pipeEnd
	inbuf    []byte // bytes the agent wrote to the stream, not yet parsed
	read     [][]byte
	expect   [][]byte
	sent     [][]byte // payloads accepted by Conn.Write, in order
	gotData  [][]byte // non-STUN frames the peer received
	seq      int
	answered int
	reqs     [][]byte // Binding requests of the agent that the peer has not answered yet
	strangers int
}

func init() {
	vtModels["tcpdata"] = func(raw json.RawMessage) vtModel { return newTCPDataModel(raw) }
}

func newTCPDataModel(raw json.RawMessage) *tcpDataModel {
	m := &tcpDataModel{gatherWorld: newGatherWorld(raw)}
	var err error
	if m.conn, err = m.a.StartAccept(vUfragB, vPwdB); err != nil {
		panic(err)
	}
	go func() {
		buf := make([]byte, 16384)
		for {
			n, err := m.conn.Read(buf)
			if err != nil {
				return
			}
			m.read = append(m.read, append([]byte{}, buf[:n]...))
		}
	}()
	synctest.Wait()

	return m
}

func (m *tcpDataModel) Enabled() []string {
	if m.cfg.Depth > 0 && m.depth >= m.cfg.Depth {
		return nil
	}
	if st, _ := m.a.GetGatheringState(); st == GatheringStateNew {
		return []string{"gather"}
	}
	if m.client == nil {
		if len(m.localCands()) == 0 {
			return []string{"wait"}
		}

		return []string{"connect:uc", "connect:plain"}
	}
	evs := []string{"answer", "tick", "request:uc"}
	for _, k := range []string{"20", "1200"} {
		for _, sp := range []string{"whole", "hdr", "body3", "glued"} {
			evs = append(evs, "data:"+k+":"+sp)
		}
		evs = append(evs, "write:"+k)
	}
	evs = append(evs, "write:stun")
	if m.udpSock() != nil {
		// the peer's IP:port is a known remote (and, once selected, the selected pair's remote) on TCP only
		evs = append(evs, "udpstranger")
	}

	return evs
}

// udpSock: the agent's own UDP host socket, when the configuration has one next to the TCP mux.
func (m *tcpDataModel) udpSock() *vsock {
	for _, lc := range m.localCands() {
		if lc.NetworkType() == NetworkTypeUDP4 {
			if h, ok := lc.(*CandidateHost); ok {
				if gs, ok := h.conn.(*gSock); ok {
					return gs.vsock
				}
			}
		}
	}

	return nil
}

func (m *tcpDataModel) request(uc bool) []byte {
	lu, lp, _ := m.a.GetLocalUserCredentials()
	setters := []stun.Setter{stun.BindingRequest, stun.TransactionID, stun.NewUsername(lu + ":" + vUfragB)}
	if uc {
		setters = append(setters, UseCandidate())
	}
	setters = append(setters, AttrControlling(7), PriorityAttr(1845501695), stun.NewShortTermIntegrity(lp), stun.Fingerprint)
	msg, err := stun.Build(setters...)
	if err != nil {
		panic(err)
	}

	return c15frame(msg.Raw)
}

// drainClient reads what the agent wrote to the stream and splits it into frames.
func (m *tcpDataModel) drainClient() {
	m.client.mu.Lock()
	m.inbuf = append(m.inbuf, m.client.buf...)
	m.client.buf = nil
	m.client.mu.Unlock()
	for len(m.inbuf) >= 2 {
		l := int(binary.BigEndian.Uint16(m.inbuf))
		if len(m.inbuf) < 2+l {
			break
		}
		fr := append([]byte{}, m.inbuf[2:2+l]...)
		m.inbuf = m.inbuf[2+l:]
		if stun.IsMessage(fr) {
			if msg := (&stun.Message{Raw: fr}); msg.Decode() == nil && msg.Type.Class == stun.ClassRequest {
				m.reqs = append(m.reqs, fr)
			}
		} else {
			m.gotData = append(m.gotData, fr)
		}
	}
}

func (m *tcpDataModel) payload(kind string) []byte {
	m.seq++
	n := 20
	if kind == "1200" {
		n = 1200
	}
	b := make([]byte, n)
	for i := range b {
		b[i] = byte(0x80 | (m.seq*31+i*7)&0x7f) // first byte >= 0x80: never STUN
	}

	return b
}

func (m *tcpDataModel) Apply(ev string) {
	m.depth++
	f := strings.Split(ev, ":")
	write := func(chunks ...[]byte) {
		for _, ch := range chunks {
			_, _ = m.client.Write(ch)
			synctest.Wait() // the agent's reader consumes the chunk: a short read
		}
	}
	switch f[0] {
	case "gather":
		if err := m.a.GatherCandidates(); err != nil {
			m.problem("", "GatherCandidates: %v", err)
		}
	case "wait":
		time.Sleep(time.Second)
	case "connect":
		c, s := newPipe(&net.TCPAddr{IP: net.ParseIP("192.0.2.9").To4(), Port: 40001}, m.lis.addr)
		m.client, m.server = c, s
		m.lis.ch <- s
		write(m.request(f[1] == "uc"))
	case "request":
		write(m.request(true))
	case "answer":
		m.drainClient()
		reqs := m.reqs
		m.reqs = nil
		for _, raw := range reqs {
			req := &stun.Message{Raw: raw}
			if req.Decode() != nil {
				continue
			}
			resp, err := stun.Build(req, stun.BindingSuccess, &stun.XORMappedAddress{IP: net.ParseIP("10.0.0.1"), Port: 7001},
				stun.NewShortTermIntegrity(vPwdB), stun.Fingerprint)
			if err != nil {
				panic(err)
			}
			m.answered++
			write(c15frame(resp.Raw))
		}
	case "tick":
		if m.contact != nil {
			m.contact()
		}
	case "data":
		p := m.payload(f[1])
		fr := c15frame(p)
		m.expect = append(m.expect, p)
		switch f[2] {
		case "whole":
			write(fr)
		case "hdr":
			write(fr[:1], fr[1:])
		case "body3":
			a, b := 2+len(p)/3, 2+2*len(p)/3
			write(fr[:a], fr[a:b], fr[b:])
		case "glued": // two frames in one segment
			p2 := m.payload("20")
			m.expect = append(m.expect, p2)
			write(append(append([]byte{}, fr...), c15frame(p2)...))
		}
	case "udpstranger":
		// same IP:port as the TCP peer, other transport: nobody signalled or authenticated it over UDP
		m.strangers++
		m.inject(m.udpSock(), "192.0.2.9:40001", m.payload("20"))
	case "write":
		var p []byte
		if f[1] == "stun" {
			msg, _ := stun.Build(stun.BindingRequest, stun.TransactionID, stun.Fingerprint)
			p = msg.Raw
		} else {
			p = m.payload(f[1])
		}
		n, err := m.conn.Write(p)
		switch {
		case f[1] == "stun":
			if err == nil {
				m.problem("", "Conn.Write accepted a payload that parses as STUN")
			}
		case err == nil && n == len(p):
			m.sent = append(m.sent, p)
		case err == nil:
			m.problem("", "Conn.Write returned %d for a payload of %d bytes", n, len(p))
		}
	default:
		panic("unknown event " + ev)
	}
	synctest.Wait()
	if m.client != nil {
		m.drainClient()
	}
	// oracles
	if len(m.read) > len(m.expect) {
		m.problem("", "the reader received %d datagrams, the peer sent %d", len(m.read), len(m.expect))
	}
	if len(m.read) < len(m.expect) {
		m.problem("", "the peer sent %d data frames from a known remote address, the reader received %d", len(m.expect), len(m.read))
	}
	for i := 0; i < len(m.read) && i < len(m.expect); i++ {
		if !bytes.Equal(m.read[i], m.expect[i]) {
			m.problem("", "datagram %d reached the reader modified or out of order (%d bytes, sent %d bytes)", i, len(m.read[i]), len(m.expect[i]))

			break
		}
	}
	for _, r := range m.read {
		if stun.IsMessage(r) {
			m.problem("", "the reader yielded a datagram that parses as STUN")
		}
	}
	if len(m.gotData) != len(m.sent) {
		m.problem("", "Conn.Write accepted %d payloads, the peer received %d data frames", len(m.sent), len(m.gotData))
	}
	for i := 0; i < len(m.gotData) && i < len(m.sent); i++ {
		if !bytes.Equal(m.gotData[i], m.sent[i]) {
			m.problem("", "payload %d arrived modified at the peer", i)

			break
		}
	}
	var rb, sb uint64
	for _, r := range m.read {
		rb += uint64(len(r))
	}
	for _, p := range m.sent {
		sb += uint64(len(p))
	}
	if m.conn.BytesReceived() != rb || m.conn.BytesSent() != sb {
		m.problem("", "Conn counters received=%d sent=%d, tallies %d / %d", m.conn.BytesReceived(), m.conn.BytesSent(), rb, sb)
	}
}

func (m *tcpDataModel) Key() (string, []int) {
	st, _ := m.a.GetGatheringState()
	sel := m.a.getSelectedPair() != nil
	pairs := ""
	_ = m.a.loop.Run(m.a.loop, func(context.Context) {
		for _, p := range m.a.checklist {
			pairs += fmt.Sprintf("[%s %v]", p.state, p.nominated)
		}
	})

	return fmt.Sprintf("gs=%s client=%v sel=%v pairs=%s read=%d sent=%d inbuf=%d reqs=%d cs=%s", st, m.client != nil, sel, pairs, len(m.read), len(m.sent), len(m.inbuf), len(m.reqs), m.a.connectionState), []int{m.depth}
}

func (m *tcpDataModel) Problems() []vtProblem {
	p := m.problems
	m.problems = nil

	return p
}

func (m *tcpDataModel) Finish() []vtProblem { return nil }
