package ice

// C16 — candidate / attribute wire formats round-trip; equality is lawful.
// Engine BE: exhaustive enumeration of constructed candidates, of token sequences and
// raw strings fed to the parser, and of attribute values/sizes.

import (
	"fmt"
	"reflect"
	"regexp"
	"sort"
	"strings"
	"sync"
	"sync/atomic"

	"github.com/pion/stun/v3"
)

func init() { registerCheck("C16", checkC16) }

type c16spec struct {
	Typ, Net, Addr string
	Port           int
	Comp           uint16
	Prio           uint32
	Found          string
	TCP            TCPType
	RelAddr        string
	RelPort        int
	Exts           []CandidateExtension
}

func (s c16spec) build() (Candidate, error) {
	var c Candidate
	var err error
	switch s.Typ {
	case "host":
		c, err = NewCandidateHost(&CandidateHostConfig{Network: s.Net, Address: s.Addr, Port: s.Port, Component: s.Comp, Priority: s.Prio, Foundation: s.Found, TCPType: s.TCP})
	case "srflx":
		c, err = NewCandidateServerReflexive(&CandidateServerReflexiveConfig{Network: s.Net, Address: s.Addr, Port: s.Port, Component: s.Comp, Priority: s.Prio, Foundation: s.Found, RelAddr: s.RelAddr, RelPort: s.RelPort})
	case "prflx":
		c, err = NewCandidatePeerReflexive(&CandidatePeerReflexiveConfig{Network: s.Net, Address: s.Addr, Port: s.Port, Component: s.Comp, Priority: s.Prio, Foundation: s.Found, RelAddr: s.RelAddr, RelPort: s.RelPort})
	default:
		c, err = NewCandidateRelay(&CandidateRelayConfig{Network: s.Net, Address: s.Addr, Port: s.Port, Component: s.Comp, Priority: s.Prio, Foundation: s.Found, RelAddr: s.RelAddr, RelPort: s.RelPort})
	}
	if err != nil {
		return nil, err
	}
	for _, e := range s.Exts {
		if err := c.AddExtension(e); err != nil {
			return nil, err
		}
	}

	return c, nil
}

func c16grammarOK(s string) bool { // byte-string of RFC 4566 without SP; may be empty only for values
	for i := 0; i < len(s); i++ {
		b := s[i]
		if b == 0 || b == 0x0A || b == 0x0D || b == 0x20 {
			return false
		}
	}

	return true
}

func c16plainExts(c Candidate) []CandidateExtension {
	var out []CandidateExtension
	for _, e := range c.Extensions() {
		if e.Key != "tcptype" {
			out = append(out, e)
		}
	}
	sort.Slice(out, func(i, j int) bool { return out[i].Key+"\x00"+out[i].Value < out[j].Key+"\x00"+out[j].Value })

	return out
}

// c16hostRaddrExt: a host candidate (whose related address the parser reads and drops) carrying an extension named
// "raddr" in first place: Marshal puts it where the parser looks for the related address (finding S31).
func c16hostRaddrExt(c Candidate) bool {
	if c.Type() != CandidateTypeHost {
		return false
	}
	for _, e := range c.Extensions() {
		if e.Key != "tcptype" {
			return e.Key == "raddr"
		}
	}

	return false
}

// c16law checks the round trip and the equality laws for one candidate; returns (class, finding, detail).
func c16roundTrip(s c16spec, c Candidate) (class, finding, detail string) {
	m := c.Marshal()
	var p Candidate
	var err error
	if pm := safely(func() { p, err = UnmarshalCandidate(m) }); pm != "" {
		return "parser panics on Marshal output", "", m + " :: " + pm
	}
	if err != nil {
		// classifier S5b: re-parse error for an extension containing a byte >= 0x80 that is not Latin-1-encodable UTF-8
		if strings.Contains(err.Error(), "invalid byte-string character") {
			for _, e := range s.Exts {
				for _, r := range e.Key + e.Value {
					if r > 0xFF {
						return "Marshal output rejected by the parser (non-Latin-1 extension bytes)", "S5b", fmt.Sprintf("%q :: %v", m, err)
					}
				}
			}
		}

		return "Marshal output rejected by the parser", "", fmt.Sprintf("%q :: %v", m, err)
	}
	if !c.Equal(c) {
		return "Equal is not reflexive", "", m
	}
	if !c.DeepEqual(c) {
		// classifier S4: DeepEqual failure on a candidate whose tcptype is set, while Equal holds and the plain extension lists are equal
		if c.TCPType() != TCPTypeUnspecified {
			return "DeepEqual is not reflexive (tcptype set)", "S4", m
		}

		return "DeepEqual is not reflexive", "", m
	}
	if !c.Equal(p) || !p.Equal(c) {
		// classifier S5a: round-trip failure with related address set and related port 0
		if s.RelAddr != "" && s.RelPort == 0 && s.Typ != "host" {
			return "round trip loses the related address (related port 0)", "S5a", fmt.Sprintf("%q -> %q", m, p.Marshal())
		}

		return "round trip: parsed candidate not Equal to the original", "", fmt.Sprintf("%q -> %q", m, p.Marshal())
	}
	if !c.DeepEqual(p) || !p.DeepEqual(c) {
		if c.TCPType() != TCPTypeUnspecified && reflect.DeepEqual(c16plainExts(c), c16plainExts(p)) {
			return "round trip: DeepEqual false (tcptype set)", "S4", m
		}

		return "round trip: parsed candidate not DeepEqual to the original", "", fmt.Sprintf("%q -> %q", m, p.Marshal())
	}
	if c.Foundation() != p.Foundation() || c.Component() != p.Component() || c.Priority() != p.Priority() || c.Port() != p.Port() ||
		c.Address() != p.Address() || c.Type() != p.Type() || c.NetworkType() != p.NetworkType() || c.TCPType() != p.TCPType() {
		return "round trip: a getter differs", "", fmt.Sprintf("%q -> %q (prio %d/%d comp %d/%d found %q/%q)", m, p.Marshal(), c.Priority(), p.Priority(), c.Component(), p.Component(), c.Foundation(), p.Foundation())
	}
	ra, rb := c.RelatedAddress(), p.RelatedAddress()
	if (ra == nil) != (rb == nil) && !(ra != nil && ra.Address == "" && ra.Port == 0) && !(rb != nil && rb.Address == "" && rb.Port == 0) {
		return "round trip: related address differs", "", fmt.Sprintf("%q -> %q", m, p.Marshal())
	}
	if ra != nil && rb != nil && (ra.Address != rb.Address || ra.Port != rb.Port) {
		return "round trip: related address differs", "", fmt.Sprintf("%q -> %q", m, p.Marshal())
	}
	if !reflect.DeepEqual(c16plainExts(c), c16plainExts(p)) {
		return "round trip: extensions differ", "", fmt.Sprintf("%q -> %q", m, p.Marshal())
	}

	return "", "", ""
}

type c16classes struct {
	mu      sync.Mutex
	count   map[string]int
	ex      map[string]string
	finding map[string]string
}

func (k *c16classes) note(class, finding, detail string) {
	k.mu.Lock()
	if k.count == nil {
		k.count, k.ex, k.finding = map[string]int{}, map[string]string{}, map[string]string{}
	}
	k.count[class]++
	if _, ok := k.ex[class]; !ok {
		k.ex[class] = detail
		k.finding[class] = finding
	}
	k.mu.Unlock()
}

func (k *c16classes) flush(c *runCtx, part string) {
	var cls []string
	for cl := range k.count {
		cls = append(cls, cl)
	}
	sort.Strings(cls)
	for _, cl := range cls {
		c.violation(k.finding[cl], fmt.Sprintf("%s: %s — %d cases, first: %s", part, cl, k.count[cl], k.ex[cl]), map[string]any{"part": part, "class": cl, "example": k.ex[cl]})
	}
}

func checkC16(c *runCtx) {
	c.setLevel("exploration")
	c.assume("USE-CANDIDATE is a flag attribute without a decoder (IsSet only); the size clause of the statement is applied to the attributes that have GetFrom decoders",
		"extension keys/values are drawn from byte strings valid under the RFC 4566 byte-string grammar without SP, as in the property's quantifier")
	var evals, nontrivial int64

	// ------------------------------------------------------------ A: constructed candidates
	types := []string{"host", "srflx", "prflx", "relay"}
	nets := []string{"udp", "tcp"}
	// the last three are valid spellings that are not the canonical text of their address (upper case, uncompressed,
	// IPv4-mapped in hex): the candidate keeps the caller's spelling and the round trip must keep it too
	addrs := []string{"1.2.3.4", "::ffff:1.2.3.4", "2001:db8::1", "fe80::1", "x.local", "2001:DB8::1", "2001:db8:0:0:0:0:0:1", "::ffff:c000:0201"}
	ports := []int{0, 1, 65535}
	comps := []uint16{0, 1, 2, 256, 65535}
	prios := []uint32{0, 1, 1<<31 - 1, 1<<32 - 1}
	founds := []string{"", "a", "abcdefghijklmnopqrstuvwxyzABCDEF", "+/"}
	tcps := []TCPType{TCPTypeUnspecified, TCPTypeActive, TCPTypePassive, TCPTypeSimultaneousOpen}
	type rel struct {
		a string
		p int
	}
	rels := []rel{{"", 0}, {"0.0.0.0", 0}, {"10.0.0.1", 0}, {"10.0.0.1", 9}, {"::", 5}}
	keys := []string{"k", "generation", "ufrag", "k€", "\x80", "k\xff"}
	vals := []string{"", "v", "€"}
	var extsets [][]CandidateExtension
	extsets = append(extsets, nil)
	for _, k := range keys {
		for _, v := range vals {
			extsets = append(extsets, []CandidateExtension{{k, v}})
		}
	}
	for _, k1 := range keys {
		for _, v1 := range vals {
			for _, k2 := range keys {
				for _, v2 := range vals {
					extsets = append(extsets, []CandidateExtension{{k1, v1}, {k2, v2}})
				}
			}
		}
	}
	var specs []c16spec
	for _, ty := range types {
		for _, nw := range nets {
			for _, ad := range addrs {
				if ad == "x.local" && ty != "host" {
					continue
				}
				for _, po := range ports {
					for _, co := range comps {
						for _, pr := range prios {
							for _, fo := range founds {
								for _, tt := range tcps {
									if tt != TCPTypeUnspecified && (ty != "host" || nw != "tcp") {
										continue
									}
									for _, rl := range rels {
										if ty == "host" && rl != rels[0] {
											continue
										}
										specs = append(specs, c16spec{ty, nw, ad, po, co, pr, fo, tt, rl.a, rl.p, nil})
									}
								}
							}
						}
					}
				}
			}
		}
	}
	// quick: every base spec with no extensions + every extension set on a small slice of bases;
	// thorough: full product on a stride of the bases co-prime with every axis length.
	extBases := 40
	if !c.quick() {
		extBases = 400
	}
	var cls c16classes
	var ctorErr int64
	run := func(s c16spec) {
		cand, err := s.build()
		atomic.AddInt64(&evals, 1)
		if err != nil {
			atomic.AddInt64(&ctorErr, 1)

			return
		}
		atomic.AddInt64(&nontrivial, 1)
		if class, finding, detail := c16roundTrip(s, cand); class != "" {
			cls.note(class, finding, detail)
		}
	}
	parallelFor(len(specs), func(i int) { run(specs[i]) })
	stride := len(specs)/extBases + 1
	for stride%2 == 0 || stride%3 == 0 || stride%5 == 0 {
		stride++
	}
	var bases []c16spec
	for i := 0; i < len(specs); i += stride {
		bases = append(bases, specs[i])
	}
	parallelFor(len(bases), func(i int) {
		for _, es := range extsets[1:] {
			s := bases[i]
			s.Exts = es
			run(s)
		}
	})
	cls.flush(c, "constructed candidates")
	c.set("constructed_base_specs", len(specs))
	c.set("extension_sets", len(extsets))
	c.set("constructor_rejections", int(ctorErr))
	c.sample(map[string]any{"part": "constructed", "spec": fmt.Sprintf("%+v", specs[len(specs)/2]), "extension_sets": len(extsets), "bases_with_all_extension_sets": len(bases)})

	// ------------------------------------------------------------ B: equality laws on pairs
	var pool []Candidate
	pstride := len(specs)/200 + 1
	for pstride%2 == 0 || pstride%3 == 0 || pstride%5 == 0 {
		pstride++
	}
	for i := 0; i < len(specs); i += pstride {
		s := specs[i]
		s.Exts = extsets[(i/pstride)%len(extsets)]
		if cand, err := s.build(); err == nil {
			pool = append(pool, cand)
			if p2, err := UnmarshalCandidate(cand.Marshal()); err == nil {
				pool = append(pool, p2) // parsed twin: pairs that ought to be equal
			}
		}
	}
	var lawCls c16classes
	parallelFor(len(pool), func(i int) {
		a := pool[i]
		for _, b := range pool {
			atomic.AddInt64(&evals, 1)
			if a.Equal(b) != b.Equal(a) {
				lawCls.note("Equal is not symmetric", "", fmt.Sprintf("%q vs %q", a.Marshal(), b.Marshal()))
			}
			dab, dba := a.DeepEqual(b), b.DeepEqual(a)
			if dab != dba {
				finding := ""
				if a.TCPType() != TCPTypeUnspecified || b.TCPType() != TCPTypeUnspecified {
					finding = "S4"
				}
				lawCls.note("DeepEqual is not symmetric", finding, fmt.Sprintf("%q vs %q", a.Marshal(), b.Marshal()))
			}
			if dab && !a.Equal(b) {
				lawCls.note("DeepEqual does not imply Equal", "", fmt.Sprintf("%q vs %q", a.Marshal(), b.Marshal()))
			}
			if a.Equal(b) {
				atomic.AddInt64(&nontrivial, 1)
			}
		}
	})
	// one base candidate under every pair of extension lists (length 0..3 over a three-letter alphabet, so that lists
	// with repeated entries, permutations and sub-multisets all meet): the laws again, where only the extensions differ
	{
		alpha := []CandidateExtension{{"network-cost", "10"}, {"network-cost", "20"}, {"generation", "0"}}
		var lists [][]CandidateExtension
		var gen func(cur []CandidateExtension)
		gen = func(cur []CandidateExtension) {
			lists = append(lists, append([]CandidateExtension{}, cur...))
			if len(cur) == 3 {
				return
			}
			for _, e := range alpha {
				gen(append(cur, e))
			}
		}
		gen(nil)
		mk := func(l []CandidateExtension) Candidate { // through the parser: AddExtension replaces an existing key, a parsed line keeps repeats
			line := "f1 1 udp 7 10.0.0.1 1000 typ host"
			for _, e := range l {
				line += " " + e.Key + " " + e.Value
			}
			cand, err := UnmarshalCandidate(line)
			if err != nil {
				return nil
			}

			return cand
		}
		var cands []Candidate
		for _, l := range lists {
			if cd := mk(l); cd != nil {
				cands = append(cands, cd)
			}
		}
		for _, a := range cands {
			for _, b := range cands {
				evals++
				nontrivial++
				dab, dba := a.DeepEqual(b), b.DeepEqual(a)
				if dab != dba {
					lawCls.note("DeepEqual is not symmetric (extension lists)", "", fmt.Sprintf("%q vs %q", a.Marshal(), b.Marshal()))
				}
				if dab && !a.Equal(b) {
					lawCls.note("DeepEqual does not imply Equal (extension lists)", "", fmt.Sprintf("%q vs %q", a.Marshal(), b.Marshal()))
				}
				if a.Marshal() == b.Marshal() && !dab {
					lawCls.note("candidates with the same textual form are not DeepEqual", "", a.Marshal())
				}
			}
		}
		c.sample(map[string]any{"part": "equality laws on extension lists", "lists": len(cands), "pairs": len(cands) * len(cands)})
	}
	lawCls.flush(c, "equality laws")
	c.sample(map[string]any{"part": "equality laws", "pool": len(pool), "pairs": len(pool) * len(pool)})

	// ------------------------------------------------------------ C: parser on token sequences and raw strings
	// positional menus: the first entry of each menu is a well-formed default; every combination with
	// at most maxOdd non-default positions is enumerated (all positions, all alternatives).
	menus := [][]string{
		{"a", "", "abcdefghijklmnopqrstuvwxyzABCDEF", "abcdefghijklmnopqrstuvwxyzABCDEFG", "+/", "a-b", "€", "candidate:a"},
		{"1", "0", "65535", "65536", "99999", "100000", "", "x", "-1"},
		{"udp", "UDP", "tcp", "TCP", "", "xyz", "ssltcp"},
		{"5", "0", "4294967295", "4294967296", "9999999999", "10000000000", "", "x"},
		{"1.2.3.4", "::ffff:1.2.3.4", "2001:db8::1", "fe80::1%eth0", "x.local", "", "999.1.1.1", "[::1]", "1.2.3.4:5"},
		{"9", "0", "65535", "65536", "99999", "", "x"},
		{"typ", "", "type", "TYP"},
		{"host", "srflx", "prflx", "relay", "", "HOST", "unknown"},
	}
	tails := []string{"", "raddr 10.0.0.1 rport 9", "raddr 10.0.0.1 rport 0", "raddr 0.0.0.0 rport 0", "raddr 10.0.0.1", "raddr", "raddr 10.0.0.1 rport", "raddr 10.0.0.1 rport 65536",
		"raddr 10.0.0.1 xport 1", "tcptype active", "tcptype passive", "tcptype so", "tcptype bogus", "tcptype", "tcptype ", "generation 0", "generation 0 ufrag ab", "k", "k ", "k  k2 v", " k v",
		"k \x00", "k \r", "k \n", "k €", "k \xff", "\x80 v", "raddr 10.0.0.1 rport 9 tcptype active generation 0", "tcptype active tcptype passive", "generation 0 generation 1", "rport 9", "raddr x rport 9 k v"}
	// the related-address tail position by position (every token may also be empty, i.e. two separators in a row)
	for _, ra := range []string{"10.0.0.1", "", "0.0.0.0", "::1", "x", "\t"} {
		for _, key := range []string{"rport", "", "xport"} {
			for _, rp := range []string{"9", "0", "", "65535", "65536", "x"} {
				for _, sfx := range []string{"", " k v", " tcptype active", " "} {
					tails = append(tails, "raddr "+ra+" "+key+" "+rp+sfx)
				}
			}
		}
	}
	maxOdd := 2
	if !c.quick() {
		maxOdd = 3
	}
	var parseCls c16classes
	var accepted int64
	var lines []string
	var recTok func(pos, odd int, cur []string)
	recTok = func(pos, odd int, cur []string) {
		if pos == len(menus) {
			lines = append(lines, strings.Join(cur, " "))

			return
		}
		for i, tok := range menus[pos] {
			if i > 0 && odd == maxOdd {
				break
			}
			o := odd
			if i > 0 {
				o++
			}
			recTok(pos+1, o, append(cur, tok))
		}
	}
	recTok(0, 0, nil)
	// truncated heads (every prefix length in tokens) to exercise the "too short" exits
	head := []string{"a", "1", "udp", "5", "1.2.3.4", "9", "typ", "host"}
	for n := 0; n <= len(head); n++ {
		lines = append(lines, strings.Join(head[:n], " "), strings.Join(head[:n], " ")+" ")
	}
	checkLine := func(line string) {
		atomic.AddInt64(&evals, 1)
		var p Candidate
		var err error
		if pm := safely(func() { p, err = UnmarshalCandidate(line) }); pm != "" {
			parseCls.note("parser panics", "", fmt.Sprintf("%q :: %s", line, pm))

			return
		}
		if err != nil {
			return
		}
		atomic.AddInt64(&accepted, 1)
		atomic.AddInt64(&nontrivial, 1)
		m := p.Marshal()
		var q Candidate
		if pm := safely(func() { q, err = UnmarshalCandidate(m) }); pm != "" {
			parseCls.note("parser panics on re-marshalled text", "", fmt.Sprintf("%q -> %q :: %s", line, m, pm))

			return
		}
		if err != nil {
			finding := ""
			if strings.Contains(err.Error(), "invalid byte-string character") {
				finding = "S5b"
			} else if c16hostRaddrExt(p) {
				finding = "S31"
			}
			parseCls.note("accepted text re-marshals to text the parser rejects", finding, fmt.Sprintf("%q -> %q :: %v", line, m, err))

			return
		}
		if !p.Equal(q) || !q.Equal(p) {
			finding := ""
			if r := p.RelatedAddress(); r != nil && r.Address != "" && r.Port == 0 {
				finding = "S5a"
			} else if c16hostRaddrExt(p) {
				finding = "S31"
			}
			parseCls.note("accepted text re-marshals to a candidate that is not Equal", finding, fmt.Sprintf("%q -> %q -> %q", line, m, q.Marshal()))

			return
		}
		if !p.DeepEqual(q) || !q.DeepEqual(p) {
			finding := ""
			if p.TCPType() != TCPTypeUnspecified && reflect.DeepEqual(c16plainExts(p), c16plainExts(q)) {
				finding = "S4"
			} else if c16hostRaddrExt(p) {
				finding = "S31"
			}
			parseCls.note("accepted text re-marshals to a candidate that is not DeepEqual", finding, fmt.Sprintf("%q -> %q", line, m))
		}
	}
	var all []string
	for _, l := range lines {
		for _, t := range tails {
			if t == "" {
				all = append(all, l)
			} else {
				all = append(all, l+" "+t)
			}
		}
	}
	// token-level edits of well-formed lines: at up to two positions a token is dropped, emptied (two separators in a
	// row), doubled, or replaced by a keyword / boundary value / junk; plus every single-byte truncation
	{
		bases := []string{
			"f1 1 udp 2130706431 10.0.0.1 1000 typ host",
			"f1 1 tcp 2130706431 10.0.0.1 1000 typ host tcptype passive",
			"f2 2 udp 1694498815 203.0.113.5 2000 typ srflx raddr 10.0.0.1 rport 1000",
			"f3 1 udp 1862270975 2001:db8::1 3000 typ prflx raddr 2001:db8::2 rport 3001 generation 0",
			"f4 1 udp 16777215 198.51.100.7 4000 typ relay raddr 203.0.113.5 rport 2000 network-cost 10 ufrag ab",
			"f5 1 tcp 1694498815 203.0.113.5 9 typ srflx raddr 10.0.0.1 rport 9 tcptype active",
		}
		repl := []string{"x", "0", "65536", "\t", "raddr", "rport", "typ", "tcptype", "host", "active", "10.0.0.1"}
		edit1 := func(toks []string) [][]string {
			var out [][]string
			for i := range toks {
				cp := func() []string { return append([]string{}, toks...) }
				d := cp()
				out = append(out, append(d[:i], d[i+1:]...)) // dropped
				e := cp()
				e[i] = ""
				out = append(out, e) // emptied
				dd := append(cp()[:i+1], toks[i:]...)
				out = append(out, dd) // doubled
				for _, r := range repl {
					if r != toks[i] {
						x := cp()
						x[i] = r
						out = append(out, x)
					}
				}
			}

			return out
		}
		seen := map[string]bool{}
		add := func(l string) {
			if !seen[l] {
				seen[l] = true
				all = append(all, l)
			}
		}
		for _, b := range bases {
			for n := 0; n <= len(b); n++ {
				add(b[:n])
			}
			for _, e1 := range edit1(strings.Split(b, " ")) {
				add(strings.Join(e1, " "))
				add(strings.Join(e1, " ") + " ")
				for _, e2 := range edit1(e1) {
					add(strings.Join(e2, " "))
				}
			}
		}
		c.sample(map[string]any{"part": "parser, token-level edits", "bases": bases, "edits": "drop / empty / double / replace by " + strings.Join(repl, ",") + " at <= 2 positions; every truncation", "lines": len(seen)})
	}
	parallelFor(len(all), func(i int) { checkLine(all[i]) })
	parseCls.flush(c, "parser")
	c.set("parser_lines", len(all))
	c.set("parser_lines_accepted", int(accepted))
	c.sample(map[string]any{"part": "parser", "example_line": all[len(all)/2], "menus": "8 positional menus (valid + boundary + malformed tokens), <= " + fmt.Sprint(maxOdd) + " non-default positions, x " + fmt.Sprint(len(tails)) + " tails"})

	// tokenizers vs regular-expression references on all raw strings up to length 5 over a small alphabet
	alpha := []string{" ", "a", "1", "+", "\x00", "€", "\xff"}
	maxRaw := 5
	if c.quick() {
		maxRaw = 4
	}
	var raws []string
	var recRaw func(cur string, n int)
	recRaw = func(cur string, n int) {
		raws = append(raws, cur)
		if n == maxRaw {
			return
		}
		for _, a := range alpha {
			recRaw(cur+a, n+1)
		}
	}
	recRaw("", 0)
	reChar := regexp.MustCompile(`^[A-Za-z0-9+/]*$`)
	reDigit := regexp.MustCompile(`^[0-9]*$`)
	var tokCls c16classes
	parallelFor(len(raws), func(i int) {
		raw := raws[i]
		first := raw
		rest := len(raw)
		if j := strings.IndexByte(raw, ' '); j >= 0 {
			first, rest = raw[:j], j+1
		}
		atomic.AddInt64(&evals, 3)
		atomic.AddInt64(&nontrivial, 1)
		// ice-char token, limit 3
		var tok string
		var pos int
		var err error
		if pm := safely(func() { tok, pos, err = readCandidateCharToken(raw, 0, 3) }); pm != "" {
			tokCls.note("readCandidateCharToken panics", "", fmt.Sprintf("%q", raw))
		} else {
			want := reChar.MatchString(first) && len(first) <= 3
			// the implementation inspects characters in order and stops at the first offence, so a bad
			// character before the 4th byte or a 4th byte both reject; equivalent to the reference
			if (err == nil) != want || (want && (tok != first || pos != rest)) {
				tokCls.note("readCandidateCharToken disagrees with the reference", "", fmt.Sprintf("%q -> (%q,%d,%v) want ok=%v (%q,%d)", raw, tok, pos, err, want, first, rest))
			}
		}
		var val int
		if pm := safely(func() { val, pos, err = readCandidateDigitToken(raw, 0, 3) }); pm != "" {
			tokCls.note("readCandidateDigitToken panics", "", fmt.Sprintf("%q", raw))
		} else {
			want := reDigit.MatchString(first) && len(first) <= 3
			wv := 0
			if want {
				fmt.Sscanf("0"+first, "%d", &wv) //nolint:errcheck
			}
			if (err == nil) != want || (want && (val != wv || pos != rest)) {
				tokCls.note("readCandidateDigitToken disagrees with the reference", "", fmt.Sprintf("%q -> (%d,%d,%v) want ok=%v (%d,%d)", raw, val, pos, err, want, wv, rest))
			}
		}
		if pm := safely(func() { tok, pos, err = readCandidateByteString(raw, 0) }); pm != "" {
			tokCls.note("readCandidateByteString panics", "", fmt.Sprintf("%q", raw))
		} else {
			want := c16grammarOK(first)
			if (err == nil) != want || (want && (tok != first || pos != rest)) {
				finding := ""
				if want && err != nil && strings.Contains(err.Error(), "invalid byte-string character") {
					finding = "S5b"
				}
				tokCls.note("readCandidateByteString disagrees with the byte-string grammar", finding, fmt.Sprintf("%q -> (%q,%d,%v) want ok=%v", raw, tok, pos, err, want))
			}
		}
	})
	tokCls.flush(c, "tokenizers")
	c.sample(map[string]any{"part": "tokenizers", "raw_strings": len(raws), "alphabet": "SP a 1 + NUL € 0xff", "max_len": maxRaw})

	// ------------------------------------------------------------ D: attributes
	var attrCls c16classes
	newMsg := func() *stun.Message { m := new(stun.Message); m.WriteHeader(); return m }
	// NOMINATION: all 2^24 values
	nomN := 1 << 24
	chunks := 256
	parallelFor(chunks, func(k int) {
		m := newMsg()
		for v := k * (nomN / chunks); v < (k+1)*(nomN/chunks); v++ {
			m.Reset()
			m.WriteHeader()
			_ = NominationAttribute{Value: uint32(v)}.AddTo(m) //nolint:gosec
			var got NominationAttribute
			if err := got.GetFrom(m); err != nil || got.Value != uint32(v) { //nolint:gosec
				attrCls.note("NOMINATION value does not survive encoding", "", fmt.Sprintf("value %d -> %d err %v", v, got.Value, err))
			}
		}
	})
	atomic.AddInt64(&evals, int64(nomN))
	atomic.AddInt64(&nontrivial, int64(nomN))
	b64 := []uint64{0, 1, 1<<32 - 1, 1 << 32, 0x0102030405060708, 0x0807060504030201, 1<<63 - 1, 1 << 63, 1<<64 - 2, 1<<64 - 1}
	for _, v := range b64 {
		m := newMsg()
		_ = AttrControlling(v).AddTo(m)
		var g AttrControlling
		raw, _ := m.Get(stun.AttrICEControlling)
		if err := g.GetFrom(m); err != nil || uint64(g) != v || fmt.Sprintf("%016x", v) != fmt.Sprintf("%x", raw) {
			attrCls.note("ICE-CONTROLLING does not round-trip big-endian", "", fmt.Sprintf("%#x", v))
		}
		m = newMsg()
		_ = AttrControlled(v).AddTo(m)
		var g2 AttrControlled
		raw, _ = m.Get(stun.AttrICEControlled)
		if err := g2.GetFrom(m); err != nil || uint64(g2) != v || fmt.Sprintf("%016x", v) != fmt.Sprintf("%x", raw) {
			attrCls.note("ICE-CONTROLLED does not round-trip big-endian", "", fmt.Sprintf("%#x", v))
		}
		for _, role := range []Role{Controlling, Controlled} {
			m = newMsg()
			_ = AttrControl{Role: role, Tiebreaker: v}.AddTo(m)
			var g3 AttrControl
			if err := g3.GetFrom(m); err != nil || g3.Role != role || g3.Tiebreaker != v {
				attrCls.note("AttrControl does not round-trip", "", fmt.Sprintf("%v %#x", role, v))
			}
		}
		atomic.AddInt64(&evals, 4)
	}
	for _, v := range []uint32{0, 1, 255, 256, 0x01020304, 1<<31 - 1, 1 << 31, 1<<32 - 1} {
		m := newMsg()
		_ = PriorityAttr(v).AddTo(m)
		var g PriorityAttr
		raw, _ := m.Get(stun.AttrPriority)
		if err := g.GetFrom(m); err != nil || uint32(g) != v || fmt.Sprintf("%08x", v) != fmt.Sprintf("%x", raw) {
			attrCls.note("PRIORITY does not round-trip big-endian", "", fmt.Sprint(v))
		}
		atomic.AddInt64(&evals, 1)
	}
	m := newMsg()
	if UseCandidate().IsSet(m) {
		attrCls.note("USE-CANDIDATE reported on a message without it", "", "")
	}
	_ = UseCandidate().AddTo(m)
	if raw, err := m.Get(stun.AttrUseCandidate); !UseCandidate().IsSet(m) || err != nil || len(raw) != 0 {
		attrCls.note("USE-CANDIDATE does not round-trip as an empty flag", "", "")
	}
	for n := 0; n <= 5; n++ {
		acks := make(DtlsInStunAckAttribute, n)
		for i := range acks {
			acks[i] = uint32(0x01020304 * (i + 1)) //nolint:gosec
		}
		m := newMsg()
		err := acks.AddTo(m)
		atomic.AddInt64(&evals, 1)
		if n > 4 {
			if err == nil {
				attrCls.note("DTLS-in-STUN ACK accepts more than four values on encode", "", fmt.Sprint(n))
			}

			continue
		}
		var g DtlsInStunAckAttribute
		if err2 := g.GetFrom(m); err != nil || err2 != nil || len(g) != n || (n > 0 && !reflect.DeepEqual([]uint32(g), []uint32(acks))) {
			attrCls.note("DTLS-in-STUN ACK does not round-trip", "", fmt.Sprint(n))
		}
	}
	for n := 0; n <= 20; n++ {
		payload := make([]byte, n)
		for i := range payload {
			payload[i] = byte(i + 1)
		}
		m := newMsg()
		_ = DtlsInStunAttribute(payload).AddTo(m)
		var g DtlsInStunAttribute
		if err := g.GetFrom(m); err != nil || string(g) != string(payload) {
			attrCls.note("DTLS-in-STUN does not round-trip", "", fmt.Sprint(n))
		}
		atomic.AddInt64(&evals, 1)
	}
	// every attribute length 0..20: rejected unless it is the legal size
	type sized struct {
		name  string
		typ   stun.AttrType
		legal func(n int) bool
		get   func(m *stun.Message) error
	}
	sizedAttrs := []sized{
		{"PRIORITY", stun.AttrPriority, func(n int) bool { return n == 4 }, func(m *stun.Message) error { var g PriorityAttr; return g.GetFrom(m) }},
		{"ICE-CONTROLLING", stun.AttrICEControlling, func(n int) bool { return n == 8 }, func(m *stun.Message) error { var g AttrControlling; return g.GetFrom(m) }},
		{"ICE-CONTROLLED", stun.AttrICEControlled, func(n int) bool { return n == 8 }, func(m *stun.Message) error { var g AttrControlled; return g.GetFrom(m) }},
		{"ICE-CONTROLLING via AttrControl", stun.AttrICEControlling, func(n int) bool { return n == 8 }, func(m *stun.Message) error { var g AttrControl; return g.GetFrom(m) }},
		{"ICE-CONTROLLED via AttrControl", stun.AttrICEControlled, func(n int) bool { return n == 8 }, func(m *stun.Message) error { var g AttrControl; return g.GetFrom(m) }},
		{"NOMINATION", DefaultNominationAttribute, func(n int) bool { return n == 4 }, func(m *stun.Message) error { var g NominationAttribute; return g.GetFrom(m) }},
		{"DTLS-in-STUN ACK", stun.AttrDtlsInStunAck, func(n int) bool { return n%4 == 0 && n <= 16 }, func(m *stun.Message) error { var g DtlsInStunAckAttribute; return g.GetFrom(m) }},
	}
	for _, sa := range sizedAttrs {
		for n := 0; n <= 20; n++ {
			m := newMsg()
			m.Add(sa.typ, make([]byte, n))
			var err error
			atomic.AddInt64(&evals, 1)
			atomic.AddInt64(&nontrivial, 1)
			if pm := safely(func() { err = sa.get(m) }); pm != "" {
				attrCls.note(sa.name+" decoder panics", "", fmt.Sprintf("length %d: %s", n, pm))

				continue
			}
			if sa.legal(n) && err != nil {
				attrCls.note(sa.name+" rejects its legal size", "", fmt.Sprintf("length %d: %v", n, err))
			}
			if !sa.legal(n) && err == nil {
				finding := ""
				// classifier S18: NOMINATION attribute longer than four bytes is accepted
				if sa.name == "NOMINATION" && n > 4 {
					finding = "S18"
				}
				attrCls.note(sa.name+" accepts a wrong size", finding, fmt.Sprintf("length %d", n))
			}
		}
	}
	attrCls.flush(c, "attributes")
	c.sample(map[string]any{"part": "attributes", "nomination_values": nomN, "sizes": "0..20 for PRIORITY, ICE-CONTROLLING/-CONTROLLED (direct and via AttrControl), NOMINATION, DTLS-in-STUN ACK"})

	c.set("evaluations", int(evals))
	c.set("distinct_nontrivial", int(nontrivial))
	c.set("rule", "constructed candidates: full product of the axis pools without extensions plus every extension list (<=2 entries over 6 keys x 3 values) on a co-prime stride of the bases; equality laws: all ordered pairs of a pool of constructed candidates and their parsed twins; parser: positional token menus with a bounded number of non-default positions x tails, plus all raw strings up to the length bound per tokenizer; attributes: all 2^24 nomination values, boundary values, all sizes 0..20. Every generated case is distinct by construction; non-trivial = the constructor accepted the candidate / the parser accepted the line / the pair is Equal / a tokenizer or attribute case (each a distinct input)")
}
