package ice

// C17 — candidate / pair priorities follow the RFC formulas for every configuration.
// Engine BE: exhaustive enumeration against an integer / big-integer reference.

import (
	"fmt"
	"hash/crc32"
	"math/big"
	"sort"
	"sync"
	"sync/atomic"
)

func init() { registerCheck("C17", checkC17) }

type c17cfg struct {
	typ   CandidateType
	nt    NetworkType
	tcp   TCPType
	proto string
	comp  uint16
}

func (c c17cfg) String() string {
	return fmt.Sprintf("type=%s net=%s tcptype=%s relayproto=%q component=%d", c.typ, c.nt, c.tcp, c.proto, c.comp)
}

func c17build(cfg c17cfg, ag *Agent) Candidate {
	addr := "10.0.0.1"
	if cfg.nt.IsIPv6() {
		addr = "2001:db8::1"
	}
	var cand Candidate
	var err error
	switch cfg.typ {
	case CandidateTypeHost:
		cand, err = NewCandidateHost(&CandidateHostConfig{Network: cfg.nt.NetworkShort(), Address: addr, Port: 1, Component: cfg.comp, TCPType: cfg.tcp})
	case CandidateTypeServerReflexive:
		cand, err = NewCandidateServerReflexive(&CandidateServerReflexiveConfig{Network: cfg.nt.NetworkShort(), Address: addr, Port: 1, Component: cfg.comp})
	case CandidateTypePeerReflexive:
		cand, err = NewCandidatePeerReflexive(&CandidatePeerReflexiveConfig{Network: cfg.nt.NetworkShort(), Address: addr, Port: 1, Component: cfg.comp})
	case CandidateTypeRelay:
		cand, err = NewCandidateRelay(&CandidateRelayConfig{Network: cfg.nt.NetworkShort(), Address: addr, Port: 1, Component: cfg.comp, RelayProtocol: cfg.proto})
	default:
		h, e := NewCandidateHost(&CandidateHostConfig{Network: cfg.nt.NetworkShort(), Address: addr, Port: 1, Component: cfg.comp, TCPType: cfg.tcp})
		if e == nil {
			h.candidateType = CandidateTypeUnspecified
		}
		cand, err = h, e
	}
	if err != nil {
		panic(err)
	}
	// tcptype is only settable through the constructor for host; set it directly elsewhere (same field the parser sets).
	switch v := cand.(type) {
	case *CandidateServerReflexive:
		v.tcpType = cfg.tcp
		v.currAgent = ag
	case *CandidatePeerReflexive:
		v.tcpType = cfg.tcp
		v.currAgent = ag
	case *CandidateRelay:
		v.tcpType = cfg.tcp
		v.currAgent = ag
	case *CandidateHost:
		v.currAgent = ag
	}

	return cand
}

// reference: the statement's formula in plain integers (no value can overflow int64).
func c17refTypePref(cfg c17cfg, offset int64) int64 {
	var p int64
	switch cfg.typ {
	case CandidateTypeHost:
		p = 126
	case CandidateTypePeerReflexive:
		p = 110
	case CandidateTypeServerReflexive:
		p = 100
	default:
		p = 0
	}
	if p == 0 {
		return 0
	}
	if cfg.nt.IsTCP() {
		p -= offset
		if p < 0 {
			p = 0 // "has a type preference in 0..126 for every configuration"
		}
	}

	return p
}

func c17refLocalPref(cfg c17cfg) int64 {
	if cfg.typ == CandidateTypeRelay {
		switch cfg.proto {
		case "tls":
			return 0
		case "tcp":
			return 1
		case "dtls":
			return 2
		default:
			return 3
		}
	}
	if !cfg.nt.IsTCP() {
		return 65535
	}
	var dir int64
	switch cfg.typ {
	case CandidateTypeHost:
		dir = map[TCPType]int64{TCPTypeActive: 6, TCPTypePassive: 4, TCPTypeSimultaneousOpen: 2}[cfg.tcp]
	case CandidateTypePeerReflexive, CandidateTypeServerReflexive:
		dir = map[TCPType]int64{TCPTypeSimultaneousOpen: 6, TCPTypeActive: 4, TCPTypePassive: 2}[cfg.tcp]
	default:
		dir = 0
	}

	return 8192*dir + 8191
}

func checkC17(c *runCtx) {
	c.setLevel("exploration")
	c.assume("candidate priority depends on the candidate only through (type, network type, tcptype, relay protocol, component, agent.tcpPriorityOffset); address/port do not enter the formula (read in candidate_base.go Priority)",
		"pair priority depends on the two uint32 priorities only through min/max/>: boundary grid P×P partitions every order relation and every carry position")

	types := []CandidateType{CandidateTypeHost, CandidateTypeServerReflexive, CandidateTypePeerReflexive, CandidateTypeRelay, CandidateTypeUnspecified}
	nets := []NetworkType{NetworkTypeUDP4, NetworkTypeUDP6, NetworkTypeTCP4, NetworkTypeTCP6}
	tcps := []TCPType{TCPTypeUnspecified, TCPTypeActive, TCPTypePassive, TCPTypeSimultaneousOpen}
	protos := []string{"udp", "tcp", "tls", "dtls", ""}
	comps := []uint16{1, 2, 255, 256}
	var cfgs []c17cfg
	for _, ty := range types {
		for _, nt := range nets {
			for _, tt := range tcps {
				for _, co := range comps {
					if ty == CandidateTypeRelay {
						for _, pr := range protos {
							cfgs = append(cfgs, c17cfg{ty, nt, tt, pr, co})
						}
					} else {
						cfgs = append(cfgs, c17cfg{ty, nt, tt, "", co})
					}
				}
			}
		}
	}
	var offsets []int
	if c.quick() {
		seen := map[int]bool{}
		for o := 0; o <= 130; o++ {
			seen[o] = true
		}
		for o := 65405; o <= 65535; o++ {
			seen[o] = true
		}
		for o := 0; o <= 65535; o += 257 {
			seen[o] = true
		}
		for o := range seen {
			offsets = append(offsets, o)
		}
		sort.Ints(offsets)
	} else {
		for o := 0; o <= 65535; o++ {
			offsets = append(offsets, o)
		}
	}

	var evals, nontrivial int64
	distinctPrio := sync.Map{}
	type bad struct {
		cfg    c17cfg
		offset int
		msg    string
	}
	var mu sync.Mutex
	firstBad := map[string]bad{}
	countBad := map[string]int{}
	report := func(class string, b bad) {
		mu.Lock()
		countBad[class]++
		if _, ok := firstBad[class]; !ok {
			firstBad[class] = b
		}
		mu.Unlock()
	}

	parallelFor(len(cfgs), func(i int) {
		cfg := cfgs[i]
		ag := &Agent{}
		cand := c17build(cfg, ag)
		local := map[uint32]bool{}
		lp := c17refLocalPref(cfg)
		for _, off := range offsets {
			ag.tcpPriorityOffset = uint16(off) //nolint:gosec
			tpl := cand.(interface {
				TypePreference() uint16
				LocalPreference() uint16
			}) //nolint:forcetypeassert
			gotTP := int64(tpl.TypePreference())
			gotLP := int64(tpl.LocalPreference())
			got := int64(cand.Priority())
			wantTP := c17refTypePref(cfg, int64(off))
			want := (1<<24)*wantTP + (1<<8)*lp + (256 - int64(cfg.comp))
			atomic.AddInt64(&evals, 1)
			if cfg.nt.IsTCP() && wantTP != c17refTypePref(cfg, 0) {
				atomic.AddInt64(&nontrivial, 1)
			}
			local[uint32(got)] = true //nolint:gosec
			cls := fmt.Sprintf("type=%s tcp=%v", cfg.typ, cfg.nt.IsTCP())
			if gotTP < 0 || gotTP > 126 {
				report("type preference outside 0..126: "+cls, bad{cfg, off, fmt.Sprintf("TypePreference()=%d want %d", gotTP, wantTP)})
			} else if gotTP != wantTP {
				report("type preference differs from reference: "+cls, bad{cfg, off, fmt.Sprintf("TypePreference()=%d want %d", gotTP, wantTP)})
			}
			if gotLP != lp {
				report("local preference differs from reference: "+cls, bad{cfg, off, fmt.Sprintf("LocalPreference()=%d want %d", gotLP, lp)})
			}
			if got != want {
				report("priority differs from formula: "+cls, bad{cfg, off, fmt.Sprintf("Priority()=%d want %d", got, want)})
			}
			if got > (1<<31)-1 {
				report("priority above 2^31-1: "+cls, bad{cfg, off, fmt.Sprintf("Priority()=%d", got)})
			}
			if cfg.comp >= 1 && cfg.comp <= 255 && got < 1 {
				report("priority below 1: "+cls, bad{cfg, off, fmt.Sprintf("Priority()=%d", got)})
			}
		}
		for p := range local {
			distinctPrio.Store(p, true)
		}
		// agent-less candidates use the default offset
		cand2 := c17build(cfg, nil)
		atomic.AddInt64(&evals, 1)
		want := (1<<24)*c17refTypePref(cfg, 27) + (1<<8)*lp + (256 - int64(cfg.comp))
		if int64(cand2.Priority()) != want {
			report("agent-less priority differs from formula (default offset 27)", bad{cfg, 27, fmt.Sprintf("Priority()=%d want %d", cand2.Priority(), want)})
		}
	})
	nDistinct := 0
	var candPrios []uint32
	distinctPrio.Range(func(k, _ any) bool {
		nDistinct++
		candPrios = append(candPrios, k.(uint32)) //nolint:forcetypeassert

		return true
	})
	for class, b := range firstBad {
		finding := ""
		// classifier S8: TCP network type and offset > type preference of the candidate type
		if b.cfg.nt.IsTCP() && int64(b.offset) > c17refTypePref(b.cfg, 0) && c17refTypePref(b.cfg, 0) > 0 {
			finding = "S8"
		}
		c.violation(finding, fmt.Sprintf("%s — %d cases, first: %s offset=%d: %s", class, countBad[class], b.cfg, b.offset, b.msg),
			map[string]any{"part": "candidate", "type": b.cfg.typ.String(), "net": b.cfg.nt.String(), "tcptype": b.cfg.tcp.String(), "relayproto": b.cfg.proto, "component": b.cfg.comp, "offset": b.offset})
	}
	c.set("candidate_configs", len(cfgs))
	c.set("offsets_per_config", len(offsets))
	c.set("distinct_candidate_priorities", nDistinct)
	c.sample(map[string]any{"config": cfgs[len(cfgs)/3].String(), "offsets": fmt.Sprintf("%d values %d..%d", len(offsets), offsets[0], offsets[len(offsets)-1])})

	// ---- pair priority
	pset := map[uint32]bool{}
	for _, v := range []uint64{0, 1, 2, 1<<8 - 1, 1 << 8, 1<<8 + 1, 1<<16 - 1, 1 << 16, 1<<16 + 1, 1<<24 - 1, 1 << 24, 1<<24 + 1, 1<<31 - 1, 1 << 31, 1<<32 - 2, 1<<32 - 1} {
		pset[uint32(v)] = true //nolint:gosec
	}
	// every candidate priority produced above for the default offset
	for _, cfg := range cfgs {
		pset[c17build(cfg, nil).Priority()] = true
	}
	if !c.quick() {
		sort.Slice(candPrios, func(i, j int) bool { return candPrios[i] < candPrios[j] })
		for i := 0; i < len(candPrios); i += 1 + len(candPrios)/600 {
			pset[candPrios[i]] = true
		}
	}
	var P []uint32
	for p := range pset {
		P = append(P, p)
	}
	sort.Slice(P, func(i, j int) bool { return P[i] < P[j] })
	mkPair := func(g, d uint32, controlling bool) *CandidatePair {
		l, _ := NewCandidateHost(&CandidateHostConfig{Network: "udp", Address: "10.0.0.1", Port: 1, Component: 1})
		r, _ := NewCandidateHost(&CandidateHostConfig{Network: "udp", Address: "10.0.0.2", Port: 2, Component: 1})
		// priority 0 means "computed" for the override, so install the raw value through a stub
		lc, rc := &c17prio{Candidate: l}, &c17prio{Candidate: r}
		if controlling {
			lc.p, rc.p = g, d
		} else {
			lc.p, rc.p = d, g
		}

		return newCandidatePair(lc, rc, controlling)
	}
	two32m1 := new(big.Int).SetUint64(1<<32 - 1)
	var pairEvals int64
	pairBad := newDistinct()
	var pairEx sync.Map
	parallelFor(len(P), func(i int) {
		g := P[i]
		var prev uint64
		for j, d := range P {
			pa := mkPair(g, d, true).priority()
			pb := mkPair(g, d, false).priority()
			atomic.AddInt64(&pairEvals, 2)
			mn, mx := g, d
			if mn > mx {
				mn, mx = mx, mn
			}
			ref := new(big.Int).Mul(two32m1, new(big.Int).SetUint64(uint64(mn)))
			ref.Add(ref, new(big.Int).SetUint64(2*uint64(mx)))
			if g > d {
				ref.Add(ref, big.NewInt(1))
			}
			if !ref.IsUint64() || ref.Uint64() != pa {
				pairBad.note("pair priority differs from big-integer formula")
				pairEx.LoadOrStore("pair priority differs from big-integer formula", fmt.Sprintf("G=%d D=%d got %d want %s", g, d, pa, ref))
			}
			if pa != pb {
				pairBad.note("pair priority differs between the two agents")
				pairEx.LoadOrStore("pair priority differs between the two agents", fmt.Sprintf("G=%d D=%d controlling=%d controlled=%d", g, d, pa, pb))
			}
			if j > 0 && pa < prev {
				pairBad.note("pair priority not monotone in D")
				pairEx.LoadOrStore("pair priority not monotone in D", fmt.Sprintf("G=%d D=%d", g, d))
			}
			prev = pa
		}
	})
	// monotone in G along sorted P for fixed D
	parallelFor(len(P), func(j int) {
		d := P[j]
		var prev uint64
		for i, g := range P {
			pa := mkPair(g, d, true).priority()
			atomic.AddInt64(&pairEvals, 1)
			if i > 0 && pa < prev {
				pairBad.note("pair priority not monotone in G")
				pairEx.LoadOrStore("pair priority not monotone in G", fmt.Sprintf("G=%d D=%d", g, d))
			}
			prev = pa
		}
	})
	for cls := range pairBad.top(10) {
		ex, _ := pairEx.Load(cls)
		c.violation("", fmt.Sprintf("%s: %v", cls, ex), map[string]any{"part": "pair", "example": ex})
	}
	c.set("pair_grid_values", len(P))
	c.sample(map[string]any{"pair_grid": fmt.Sprintf("%d x %d priorities incl. 0,1,2^8±1,2^16±1,2^24±1,2^31-1,2^31,2^32-2,2^32-1 and every default-offset candidate priority", len(P), len(P))})

	// ---- foundation
	fAddrs := []string{}
	for i := 0; i < 20; i++ {
		fAddrs = append(fAddrs, fmt.Sprintf("10.0.%d.%d", i/5, i%5+1), fmt.Sprintf("2001:db8::%x", i+1))
	}
	type fkey struct {
		typ  CandidateType
		addr string
		nt   NetworkType
	}
	byFoundation := map[string]fkey{}
	var fEvals int64
	for _, ty := range types[:4] {
		for _, ad := range fAddrs {
			for _, nt := range nets {
				if nt.IsIPv6() != (len(ad) > 4 && ad[4] == ':') {
					continue
				}
				k := fkey{ty, ad, nt}
				mk := func(port int, comp uint16) Candidate {
					switch ty {
					case CandidateTypeHost:
						x, _ := NewCandidateHost(&CandidateHostConfig{Network: nt.NetworkShort(), Address: ad, Port: port, Component: comp})
						return x
					case CandidateTypeServerReflexive:
						x, _ := NewCandidateServerReflexive(&CandidateServerReflexiveConfig{Network: nt.NetworkShort(), Address: ad, Port: port, Component: comp, RelAddr: "10.9.9.9", RelPort: port})
						return x
					case CandidateTypePeerReflexive:
						x, _ := NewCandidatePeerReflexive(&CandidatePeerReflexiveConfig{Network: nt.NetworkShort(), Address: ad, Port: port, Component: comp})
						return x
					default:
						x, _ := NewCandidateRelay(&CandidateRelayConfig{Network: nt.NetworkShort(), Address: ad, Port: port, Component: comp, RelAddr: "10.9.9.9", RelPort: 5})
						return x
					}
				}
				c1, c2 := mk(1000, 1), mk(2000, 2)
				fEvals += 2
				if c1.Foundation() != c2.Foundation() {
					c.violation("", fmt.Sprintf("equal (type,address,network) but different foundations: %v", k), map[string]any{"part": "foundation", "key": fmt.Sprint(k)})
				}
				// everything else a candidate carries stays out of the foundation: TCP type, relay protocol, related address
				var others []Candidate
				if ty == CandidateTypeHost && nt.IsTCP() {
					for _, tt := range []TCPType{TCPTypeActive, TCPTypePassive, TCPTypeSimultaneousOpen} {
						x, _ := NewCandidateHost(&CandidateHostConfig{Network: nt.NetworkShort(), Address: ad, Port: 3000, Component: 1, TCPType: tt})
						others = append(others, x)
					}
				}
				if ty == CandidateTypeRelay {
					for _, rp := range []string{"udp", "tcp", "tls", "dtls"} {
						x, _ := NewCandidateRelay(&CandidateRelayConfig{Network: nt.NetworkShort(), Address: ad, Port: 3000, Component: 1, RelAddr: "10.8.8.8", RelPort: 6, RelayProtocol: rp})
						others = append(others, x)
					}
				}
				if ty == CandidateTypeServerReflexive {
					x, _ := NewCandidateServerReflexive(&CandidateServerReflexiveConfig{Network: nt.NetworkShort(), Address: ad, Port: 3000, Component: 1, RelAddr: "10.8.8.8", RelPort: 6})
					others = append(others, x)
				}
				for _, o := range others {
					fEvals++
					if o != nil && o.Foundation() != c1.Foundation() {
						c.violation("", fmt.Sprintf("equal (type,address,network) but different foundations: %v (TCP type %s, related address %v)", k, o.TCPType(), o.RelatedAddress()), map[string]any{"part": "foundation", "key": fmt.Sprint(k)})
					}
				}
				want := fmt.Sprintf("%d", crc32.ChecksumIEEE([]byte(ty.String()+ad+nt.String())))
				if c1.Foundation() != want {
					c.violation("", fmt.Sprintf("foundation is not CRC-32 of type+address+network for %v", k), map[string]any{"part": "foundation", "key": fmt.Sprint(k)})
				}
				if other, dup := byFoundation[c1.Foundation()]; dup && other != k {
					c.violation("", fmt.Sprintf("distinct triples share a foundation: %v and %v", k, other), map[string]any{"part": "foundation", "key": fmt.Sprint(k)})
				}
				byFoundation[c1.Foundation()] = k
			}
		}
	}
	c.set("foundation_triples", len(byFoundation))

	c.set("evaluations", int(evals+pairEvals+fEvals))
	c.set("distinct_nontrivial", nDistinct+len(P)*len(P)+len(byFoundation))
	c.set("rule", "candidate part: every (type × network type × tcptype × relay protocol × component) configuration × every TCP offset in the tier's offset set, compared with the statement's formula in integers; distinct = distinct priority values produced. pair part: every (G,D) of the boundary grid in both roles vs math/big; distinct = grid cells. foundation part: distinct (type,address,network) triples. A case is non-trivial when it yields a value not produced by another counted case.")
}

// c17prio overrides Priority() with an arbitrary uint32 (incl. 0).
type c17prio struct {
	Candidate
	p uint32
}

func (c *c17prio) Priority() uint32 { return c.p }
