package ice

// C10, "each call observes a state produced by whole preceding operations": what a getter hands out is a snapshot.
// The bookkeeping model of C06 (candidates added, peer-reflexive discovery and supersession, checks, answers,
// Restart, Failed) with one more event: the application calls every getter that returns a collection and keeps the
// results. After every later event each kept result must still be what it was when it was handed out.

import (
	"encoding/json"
	"fmt"
	"strings"
)

func init() {
	vtModels["snapshots"] = func(cfg json.RawMessage) vtModel { return &snapModel{bookModel: newBookModel(cfg)} }
}

type heldResult struct {
	what   string
	render func() string
	was    string
	size   int // number of elements handed out (for the canonical key: renderings contain addresses)
}

type snapModel struct {
	*bookModel
	held  []heldResult
	holds int
}

func renderCands(cs []Candidate) string {
	var out []string
	for _, c := range cs {
		out = append(out, fmt.Sprintf("%p %s %s", c, c.Type(), c.addr()))
	}

	return strings.Join(out, "; ")
}

func (m *snapModel) Enabled() []string {
	evs := m.bookModel.Enabled()
	if evs != nil && m.holds < 2 {
		evs = append(evs, "hold")
	}

	return evs
}

func (m *snapModel) Apply(ev string) {
	if ev != "hold" {
		m.bookModel.Apply(ev)
	} else {
		m.depth++
		m.holds++
		a := m.x.agent
		keep := func(what string, size int, render func() string) {
			m.held = append(m.held, heldResult{fmt.Sprintf("%s (call %d)", what, m.holds), render, render(), size})
		}
		if rc, err := a.GetRemoteCandidates(); err == nil {
			keep("GetRemoteCandidates", len(rc), func() string { return renderCands(rc) })
		}
		if lc, err := a.GetLocalCandidates(); err == nil {
			keep("GetLocalCandidates", len(lc), func() string { return renderCands(lc) })
		}
		ps := a.GetCandidatePairsStats()
		keep("GetCandidatePairsStats", len(ps), func() string { return fmt.Sprintf("%+v", ps) })
		ls := a.GetLocalCandidatesStats()
		keep("GetLocalCandidatesStats", len(ls), func() string { return fmt.Sprintf("%+v", ls) })
		rs := a.GetRemoteCandidatesStats()
		keep("GetRemoteCandidatesStats", len(rs), func() string { return fmt.Sprintf("%+v", rs) })
		if m.x.conn != nil {
			info := m.x.conn.GetCandidatePairsInfo()
			keep("Conn.GetCandidatePairsInfo", len(info), func() string { return fmt.Sprintf("%+v", info) })
		}
	}
	for i := range m.held {
		if now := m.held[i].render(); now != m.held[i].was {
			m.problem("", "the result of %s changed after it was handed out: was [%s], is now [%s]", m.held[i].what, m.held[i].was, now)
			m.held[i].was = now
		}
	}
}

func (m *snapModel) Key() (string, []int) {
	k, b := m.bookModel.Key()
	// the kept results are harness state; correct ones never change, so the number of calls and their position identify them
	var hs []string
	for _, h := range m.held {
		hs = append(hs, fmt.Sprint(h.size))
	}

	return k + " held=" + strings.Join(hs, ","), b
}
