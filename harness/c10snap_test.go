package ice

// C10, "each call observes a state produced by whole preceding operations": what a getter hands out is a snapshot.
// The bookkeeping model of C06 (candidates added, peer-reflexive discovery and supersession, checks, answers,
// Restart, Failed) with one more event: the application calls every getter that returns a collection and keeps the
// results. After every later event each kept result must still be what it was when it was handed out.

import (
	"context"
	"encoding/json"
	"fmt"
	"github.com/pion/stun/v3"
	"net"
	"strings"
	"testing"
	"testing/synctest"
)

func init() {
	vtModels["snapshots"] = func(cfg json.RawMessage) vtModel { return &snapModel{bookModel: newBookModel(cfg)} }
}

type heldResult struct {
	what   string
	render func() string
	was    string
	size   int // number of elements handed out (for the canonical key: renderings contain addresses)
}

type snapModel struct {
	*bookModel
	held  []heldResult
	holds int
}

func renderCands(cs []Candidate) string {
	var out []string
	for _, c := range cs {
		out = append(out, fmt.Sprintf("%p %s %s", c, c.Type(), c.addr()))
	}

	return strings.Join(out, "; ")
}

func (m *snapModel) Enabled() []string {
	evs := m.bookModel.Enabled()
	if evs != nil && m.holds < 2 {
		evs = append(evs, "hold")
	}

	return evs
}

func (m *snapModel) Apply(ev string) {
	if ev != "hold" {
		m.bookModel.Apply(ev)
	} else {
		m.depth++
		m.holds++
		a := m.x.agent
		keep := func(what string, size int, render func() string) {
			m.held = append(m.held, heldResult{fmt.Sprintf("%s (call %d)", what, m.holds), render, render(), size})
		}
		if rc, err := a.GetRemoteCandidates(); err == nil {
			keep("GetRemoteCandidates", len(rc), func() string { return renderCands(rc) })
		}
		if lc, err := a.GetLocalCandidates(); err == nil {
			keep("GetLocalCandidates", len(lc), func() string { return renderCands(lc) })
		}
		ps := a.GetCandidatePairsStats()
		keep("GetCandidatePairsStats", len(ps), func() string { return fmt.Sprintf("%+v", ps) })
		ls := a.GetLocalCandidatesStats()
		keep("GetLocalCandidatesStats", len(ls), func() string { return fmt.Sprintf("%+v", ls) })
		rs := a.GetRemoteCandidatesStats()
		keep("GetRemoteCandidatesStats", len(rs), func() string { return fmt.Sprintf("%+v", rs) })
		if m.x.conn != nil {
			info := m.x.conn.GetCandidatePairsInfo()
			keep("Conn.GetCandidatePairsInfo", len(info), func() string { return fmt.Sprintf("%+v", info) })
		}
	}
	for i := range m.held {
		if now := m.held[i].render(); now != m.held[i].was {
			m.problem("", "the result of %s changed after it was handed out: was [%s], is now [%s]", m.held[i].what, m.held[i].was, now)
			m.held[i].was = now
		}
	}
}

func (m *snapModel) Key() (string, []int) {
	k, b := m.bookModel.Key()
	// the kept results are harness state; correct ones never change, so the number of calls and their position identify them
	var hs []string
	for _, h := range m.held {
		hs = append(hs, fmt.Sprint(h.size))
	}

	return k + " held=" + strings.Join(hs, ","), b
}

// ---------------------------------------------------------------- C06: the remote IP filter and the forms an address can take

// c06filterForms: authenticated checks from sources the remote IP filter rejects, in every form a socket can report
// them (IPv4, IPv4-in-IPv6, IPv6 link-local with and without a zone), and the same addresses signalled: none of
// them becomes a remote candidate or a pair.
func c06filterForms(t *testing.T) (problems []string, n int) {
	inBubble(t, func() {
		w := newWorld()
		_, deny4, _ := net.ParseCIDR("10.66.0.0/16")
		_, deny6, _ := net.ParseCIDR("fe80::/10")
		a, err := NewAgentWithOptions(WithNet(vNet{}), WithMulticastDNSMode(MulticastDNSModeDisabled), WithNetworkTypes([]NetworkType{NetworkTypeUDP4, NetworkTypeUDP6}),
			WithCandidateTypes([]CandidateType{CandidateTypeHost}), WithLocalCredentials(vUfragA, vPwdA), WithLoggerFactory(nopFactory{}),
			WithRemoteIPFilter(func(ip net.IP) bool { return !deny4.Contains(ip) && !deny6.Contains(ip) }))
		if err != nil {
			panic(err)
		}
		defer a.Close() //nolint:errcheck
		s4 := w.newSock("a0", "10.0.0.1", 1000, "")
		s6 := w.newSock("a1", "2001:db8::1", 1001, "")
		for _, lc := range []struct {
			ip   string
			port int
			sock *vsock
		}{{"10.0.0.1", 1000, s4}, {"2001:db8::1", 1001, s6}} {
			c, _ := NewCandidateHost(&CandidateHostConfig{Network: "udp", Address: lc.ip, Port: lc.port, Component: 1})
			if err := a.addCandidate(context.Background(), c, lc.sock); err != nil {
				panic(err)
			}
		}
		if _, err := a.StartAccept(vUfragB, vPwdB); err != nil {
			panic(err)
		}
		synctest.Wait()
		check := func() []byte {
			m, _ := stun.Build(stun.BindingRequest, stun.TransactionID, stun.NewUsername(vUfragA+":"+vUfragB), AttrControlling(5), PriorityAttr(1845501695),
				stun.NewShortTermIntegrity(vPwdA), stun.Fingerprint)

			return m.Raw
		}
		denied := func(ip net.IP) bool { return deny4.Contains(ip) || deny6.Contains(ip) }
		judge := func(what string) {
			rcs, _ := a.GetRemoteCandidates()
			for _, rc := range rcs {
				ip := net.ParseIP(strings.Split(rc.Address(), "%")[0])
				if ua, ok := rc.addr().(*net.UDPAddr); ok && ua != nil {
					ip = ua.IP
				}
				if ip != nil && denied(ip) {
					problems = append(problems, fmt.Sprintf("after %s the remote candidates include %s %s, which the remote IP filter rejects", what, rc.Type(), rc.addr()))
				}
			}
		}
		for _, src := range []struct {
			sock *vsock
			from string
		}{{s4, "10.66.0.5:2005"}, {s4, "[::ffff:10.66.0.5]:2005"}, {s6, "[fe80::1234]:9999"}, {s6, "[fe80::1234%eth0]:9999"}} {
			n++
			w.inject(src.sock, src.from, check())
			judge("an authenticated check from " + src.from)
		}
		for _, line := range []string{"1 1 udp 2130706431 10.66.0.5 2005 typ host", "2 1 udp 2130706431 fe80::1234 9999 typ host", "3 1 udp 2130706431 ::ffff:10.66.0.6 2006 typ host"} {
			n++
			if rc, err := UnmarshalCandidate(line); err == nil {
				_ = a.AddRemoteCandidate(rc)
				synctest.Wait()
				judge("signalling " + line)
			}
		}
	})

	return problems, n
}
