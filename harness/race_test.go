package ice

// Auxiliary pass for C10 (not part of the deciding exploration): the public API is hammered from many
// goroutines, free running, in a binary built with -race. A cooperative scheduler's hand-offs are
// happens-before edges that blind the detector, so this pass runs without the scheduler. It can only add
// alarms for real data races (the detector has no false positives); its silence is not counted as evidence.

import (
	"context"
	"encoding/json"
	"fmt"
	"os"
	"runtime"
	"sync"
	"testing"
	"testing/synctest"
	"time"
)

func TestVerifRace(t *testing.T) {
	if os.Getenv("VERIF_RACE") == "" {
		t.Skip("VERIF_RACE not set")
	}
	rounds := 3
	for r := 0; r < rounds; r++ {
		synctest.Test(t, func(*testing.T) { raceHammer(r) })
	}
	fmt.Println("RACE-PASS-DONE rounds", rounds)
}

func raceHammer(round int) {
	raw, _ := json.Marshal(pairCfg{KindsA: []string{"host", "host"}, KindsB: []string{"host"}, PrioA: []uint32{2130706431, 1000}, Ticks: 1 << 30, Renom: true})
	pw := newPairWorld(raw)
	stop := make(chan struct{})
	var wg sync.WaitGroup
	// the environment: ticks and deliveries from its own goroutine, concurrently with the API users
	wg.Add(1)
	go func() {
		defer wg.Done()
		for i := 0; ; i++ {
			select {
			case <-stop:
				return
			default:
			}
			pw.mu.Lock()
			seq := -1
			if len(pw.inflight) > 0 {
				seq = pw.inflight[0].seq
			}
			pw.mu.Unlock()
			switch {
			case seq >= 0:
				pw.mu.Lock()
				idx := pw.find(seq)
				var d dgram
				var dst *vsock
				if idx >= 0 {
					d = pw.inflight[idx]
					pw.inflight = append(pw.inflight[:idx:idx], pw.inflight[idx+1:]...)
					dst = pw.routable(d.srcSock, d.dst)
				}
				pw.mu.Unlock()
				if dst != nil {
					select {
					case dst.in <- rxPacket{d.src, d.data}:
					case <-stop:
						return
					}
				}
			case i%2 == 0:
				pw.side[0].contact()
			default:
				pw.side[1].contact()
			}
			runtime.Gosched()
		}
	}()
	user := func(a *Agent, conn *Conn, id int) {
		defer wg.Done()
		rc, _ := NewCandidateHost(&CandidateHostConfig{Network: "udp", Address: fmt.Sprintf("10.0.9.%d", id+1), Port: 9000 + id, Component: 1})
		for i := 0; i < 150; i++ {
			switch (i + id) % 14 {
			case 0:
				_, _ = a.GetLocalCandidates()
			case 1:
				_, _ = a.GetRemoteCandidates()
			case 2:
				_, _ = a.GetSelectedCandidatePair()
			case 3:
				_ = a.GetCandidatePairsStats()
			case 4:
				_, _ = a.GetSelectedCandidatePairStats()
			case 5:
				_ = a.GetLocalCandidatesStats()
				_ = a.GetRemoteCandidatesStats()
			case 6:
				_, _, _ = a.GetLocalUserCredentials()
				_, _, _ = a.GetRemoteUserCredentials()
			case 7:
				_ = a.AddRemoteCandidate(rc)
			case 8:
				if sp := a.getSelectedPair(); sp != nil {
					_ = a.RenominateCandidate(sp.Local, sp.Remote)
				}
			case 9:
				_, _ = conn.Write([]byte("data from a user goroutine"))
			case 10:
				for _, in := range conn.GetCandidatePairsInfo() {
					_, _ = conn.WriteToPair(in.ID, []byte("x"))

					break
				}
			case 11:
				_, _ = a.GetGatheringState()
			case 12:
				_ = conn.LocalAddr()
				_ = conn.RemoteAddr()
				_ = conn.BytesSent()
			case 13:
				ctx, cancel := context.WithTimeout(context.Background(), time.Millisecond)
				_ = a.AwaitConnect(ctx)
				cancel()
			}
			runtime.Gosched()
		}
	}
	var uw sync.WaitGroup
	for id := 0; id < 8; id++ {
		s := pw.side[id%2]
		wg.Add(1)
		uw.Add(1)
		go func(id int) {
			defer uw.Done()
			user(s.agent, s.conn, id)
		}(id)
	}
	// readers drain application data
	for _, s := range pw.side {
		conn := s.conn
		wg.Add(1)
		go func() {
			defer wg.Done()
			buf := make([]byte, 2048)
			for {
				if _, err := conn.Read(buf); err != nil {
					return
				}
			}
		}()
	}
	uw.Wait()
	if round%2 == 1 {
		_ = pw.side[0].agent.Restart("", "")
	}
	close(stop)
	for _, s := range pw.side {
		_ = s.agent.Close()
	}
	// unblock the environment if it is inside a send
	wg.Wait()
}
