package ice

// C06 — candidate and pair bookkeeping stays consistent; Restart leaves no residue. Engine VT:
// BFS over all operation sequences of one real Agent within the depth bound, invariants after every event.

import (
	"context"
	"encoding/json"
	"fmt"
	"os"
	"sort"
	"strconv"
	"strings"
	"testing/synctest"
	"time"

	"github.com/pion/stun/v3"
)

func init() {
	registerCheck("C06", checkC06)
	vReplayers["C06"] = vtReplay
	vtModels["book"] = func(cfg json.RawMessage) vtModel { return newBookModel(cfg) }
}

type bookRemote struct {
	name   string
	line   string // candidate attribute text as signalled
	addr   string
	reject bool // must never become a remote candidate (TCP active / filtered address)
}

type bookPairMemo struct {
	local, remote string
}

type bookPairRow struct {
	id                   uint64
	local, remote, rtype string
	state                CandidatePairState
	nominated, deferred  bool
	prio                 uint64
	reqs                 uint16
	reqSent, respRecv    uint64
	selected             bool
	stats                string // every other counter of the pair (requests received, responses sent, packets, bytes, round-trip times)
}

type bookModel struct {
	*soloWorld
	depth     int
	pool      []bookRemote
	added     map[int]bool         // local sockets added in this generation
	idMemo    map[uint64]bookPairMemo // pair id -> address pair, this generation
	oldAddrs  map[string]bool      // local socket addresses of ended generations
	oldTx     map[[stun.TransactionIDSize]byte]bool
	failed    bool
	lastRows  map[string]bookPairRow // by "local>remote" before the current event
}

func newBookModel(raw json.RawMessage) *bookModel {
	var cfg soloCfg
	_ = json.Unmarshal(raw, &cfg)
	cfg.Locals, cfg.Remotes, cfg.NoSignal = 0, 0, true
	cfg.RejectRemote = "10.66.0.0/16"
	raw2, _ := json.Marshal(cfg)
	m := &bookModel{soloWorld: newSoloWorld(raw2), added: map[int]bool{}, idMemo: map[uint64]bookPairMemo{}, oldAddrs: map[string]bool{}, oldTx: map[[stun.TransactionIDSize]byte]bool{}}
	m.pool = []bookRemote{
		{"r0", "1 1 udp 2130706431 10.0.1.1 2000 typ host", "10.0.1.1:2000", false},
		{"r1", "2 1 udp 1694498815 203.0.113.7 4000 typ srflx raddr 192.168.0.7 rport 2001", "203.0.113.7:4000", false},
		{"r2", "3 1 udp 2130706175 10.0.1.9 2009 typ host", "10.0.1.9:2009", false}, // same transport address as the unknown peer p
		{"r3", "4 1 tcp 2128609279 10.0.1.4 9 typ host tcptype active", "10.0.1.4:9", true},
		{"r4", "5 1 udp 2130706431 10.66.0.5 2005 typ host", "10.66.0.5:2005", true},
	}
	for i, r := range m.pool {
		h, p, _ := strings.Cut(r.addr, ":")
		port, _ := strconv.Atoi(p)
		m.newSock(fmt.Sprintf("p%d", i), h, port, "")
	}
	m.lastRows = m.rows()

	return m
}

func (m *bookModel) rows() map[string]bookPairRow {
	a := m.x.agent
	out := map[string]bookPairRow{}
	_ = a.loop.Run(a.loop, func(context.Context) {
		sel := a.getSelectedPair()
		for _, p := range a.checklist {
			out[p.Local.addr().String()+">"+p.Remote.addr().String()] = bookPairRow{p.id, p.Local.addr().String(), p.Remote.addr().String(), p.Remote.Type().String(), p.state,
				p.nominated, p.nominateOnBindingSuccess, p.priority(), p.bindingRequestCount, p.RequestsSent(), p.ResponsesReceived(), sel == p,
				fmt.Sprintf("reqRecv=%d respSent=%d pkts=%d/%d bytes=%d/%d rtt=%v/%v", p.RequestsReceived(), p.ResponsesSent(), p.PacketsSent(), p.PacketsReceived(),
					p.BytesSent(), p.BytesReceived(), p.CurrentRoundTripTime(), p.TotalRoundTripTime())}
		}
	})

	return out
}

func (m *bookModel) Enabled() []string {
	if m.cfg.Depth > 0 && m.depth >= m.cfg.Depth {
		return nil
	}
	var evs []string
	for i := 0; i < 2; i++ {
		if !m.added[i] { // (also after Failed: a continually gathering agent gets new local candidates without a Restart)
			evs = append(evs, fmt.Sprintf("addLocal:%d", i))
		}
	}
	for j := range m.pool {
		evs = append(evs, fmt.Sprintf("addRemote:%d", j))
	}
	if len(m.x.socks) > 0 && !m.failed {
		for _, from := range []string{"r2", "r4", "r0"} { // the unknown peer p uses r2's transport address
			evs = append(evs, "check:"+from)
		}
		evs = append(evs, "check-uc:r2")
	}
	for _, d := range m.pendingOut() {
		evs = append(evs, fmt.Sprintf("answer:%d", d.seq))
	}
	evs = append(evs, "tick", "restart")
	if !m.failed {
		evs = append(evs, "fail")
	}
	ids := []uint64{}
	for id := range m.idMemo {
		ids = append(ids, id)
	}
	sort.Slice(ids, func(i, j int) bool { return ids[i] < ids[j] })
	for _, id := range ids {
		evs = append(evs, fmt.Sprintf("write:%d", id))
	}

	return evs
}

func (m *bookModel) remoteByName(n string) bookRemote {
	for _, r := range m.pool {
		if r.name == n {
			return r
		}
	}
	panic("no remote " + n)
}

func (m *bookModel) Apply(ev string) {
	m.depth++
	a := m.x.agent
	m.lastRows = m.rows()
	f := strings.Split(ev, ":")
	switch f[0] {
	case "addLocal":
		i, _ := strconv.Atoi(f[1])
		m.added[i] = true
		m.addLocal(i)
	case "addRemote":
		j, _ := strconv.Atoi(f[1])
		c, err := UnmarshalCandidate(m.pool[j].line)
		if err != nil {
			panic(err)
		}
		_ = a.AddRemoteCandidate(c)
		synctest.Wait()
	case "check", "check-uc":
		r := m.remoteByName(f[1])
		m.inject(m.x.socks[0], r.addr, m.peerRequest(peerReqOpts{nom: -1, prio: 1862270975, uc: f[0] == "check-uc"}))
	case "answer":
		seq, _ := strconv.Atoi(f[1])
		idx := m.find(seq)
		if idx < 0 {
			panic("replay divergence: request not outstanding")
		}
		d := m.inflight[idx]
		m.removeInflight(seq)
		if s, ok := m.socks[d.srcSock]; ok && !s.isClosed() {
			m.inject(s, d.dst, m.peerResponse(d.data, stun.ClassSuccessResponse, "", d.src))
		}
	case "tick":
		m.tick()
	case "restart":
		m.recordGeneration(true)
		m.x.gen++
		if err := a.Restart(fmt.Sprintf("ufragAAAAg%d", m.x.gen), fmt.Sprintf("pwdAAAAAAAAAAAAAAAAAAAAAAAg%d", m.x.gen)); err != nil {
			m.problem("", "Restart: %v", err)
		}
		_ = a.SetRemoteCredentials(m.peerUfrag, m.peerPwd)
		m.checkWiped("Restart")
		m.failed = false
	case "fail":
		m.tick()                     // the checking deadline runs from the first tick of the checking phase
		time.Sleep(40 * time.Second) // beyond the checking deadline and beyond disconnected+failed
		synctest.Wait()
		m.tick()
		if a.connectionState == ConnectionStateDisconnected {
			m.tick()
		}
		if a.connectionState != ConnectionStateFailed {
			m.problem("", "agent did not fail after 40s of silence (state %s)", a.connectionState)
		} else {
			m.recordGeneration(false)
			m.failed = true
			m.checkWiped("entering Failed")
		}
	case "write":
		id, _ := strconv.ParseUint(f[1], 10, 64)
		memo := m.idMemo[id]
		n0 := len(m.sentLog)
		payload := []byte("payload-for-pair-" + f[1])
		_, err := m.x.conn.WriteToPair(id, payload)
		synctest.Wait()
		emitted := m.sentLog[n0:]
		if err == nil {
			if len(emitted) != 1 || string(emitted[0].data) != string(payload) {
				m.problem("", "WriteToPair(%d) succeeded but emitted %d datagram(s)", id, len(emitted))
			} else {
				src := m.socks[emitted[0].srcSock].addr.String()
				if src != memo.local || emitted[0].dst != memo.remote {
					m.problem("", "WriteToPair(%d) left through %s to %s, but the id denotes %s>%s", id, src, emitted[0].dst, memo.local, memo.remote)
				}
			}
		} else if len(emitted) != 0 {
			m.problem("", "WriteToPair(%d) failed (%v) but emitted %d datagram(s)", id, err, len(emitted))
		}
	default:
		panic("unknown event " + ev)
	}
	// keep X's requests, drop the rest
	m.purge()
	m.invariants(ev)
}

// recordGeneration remembers what belongs to the generation that is about to end.
func (m *bookModel) recordGeneration(endsGeneration bool) {
	for _, s := range m.x.socks {
		m.oldAddrs[s.addr.String()] = true
	}
	for _, d := range m.sentLog {
		if si := describeSTUN(d.data); si.isSTUN && si.class == "request" {
			m.oldTx[si.tx] = true
		}
	}
	m.x.socks, m.x.cands = nil, nil
	m.added = map[int]bool{}
	if endsGeneration { // Failed releases everything but the generation goes on: its pair ids stay spoken for
		m.idMemo = map[uint64]bookPairMemo{}
		m.refills = 0
	} else {
		m.refills++
	}
}

func (m *bookModel) checkWiped(when string) {
	a := m.x.agent
	_ = a.loop.Run(a.loop, func(context.Context) {
		nL, nR := 0, 0
		for _, s := range a.localCandidates {
			nL += len(s)
		}
		for _, s := range a.remoteCandidates {
			nR += len(s)
		}
		if len(a.checklist) != 0 || len(a.pairsByID) != 0 || nL != 0 || nR != 0 || a.getSelectedPair() != nil || len(a.pendingBindingRequests) != 0 {
			m.problem("", "%s left residue: pairs=%d byID=%d locals=%d remotes=%d selected=%v outstanding=%d", when, len(a.checklist), len(a.pairsByID), nL, nR, a.getSelectedPair() != nil, len(a.pendingBindingRequests))
		}
	})
}

func (m *bookModel) invariants(ev string) {
	a := m.x.agent
	var stats []CandidatePairStats
	_ = a.loop.Run(a.loop, func(context.Context) {
		seenPair := map[string]bool{}
		seenID := map[uint64]bool{}
		locals := map[Candidate]bool{}
		remotes := map[Candidate]bool{}
		for _, s := range a.localCandidates {
			for _, c := range s {
				locals[c] = true
				if m.oldAddrs[c.addr().String()] {
					m.problem("", "local candidate %s of an ended generation is listed again", c.addr())
				}
			}
		}
		var rl []Candidate
		for nt, s := range a.remoteCandidates {
			for _, c := range s {
				remotes[c] = true
				rl = append(rl, c)
				if c.NetworkType() != nt {
					m.problem("", "remote candidate %s filed under network type %s", c, nt)
				}
				if c.TCPType() == TCPTypeActive {
					m.problem("", "TCP-active remote candidate %s was accepted", c.addr())
				}
				if strings.HasPrefix(c.addr().String(), "10.66.") {
					m.problem("", "remote candidate %s (%s) has an address the remote IP filter rejects", c.addr(), c.Type())
				}
			}
		}
		for i := range rl {
			for j := i + 1; j < len(rl); j++ {
				if rl[i].Equal(rl[j]) {
					m.problem("", "remote candidates are not deduplicated: %s twice", rl[i])
				}
				if rl[i].NetworkType() == rl[j].NetworkType() && rl[i].addr().String() == rl[j].addr().String() && (rl[i].Type() == CandidateTypePeerReflexive || rl[j].Type() == CandidateTypePeerReflexive) {
					m.problem("", "a peer-reflexive and a signalled remote candidate share the transport address %s", rl[i].addr())
				}
			}
		}
		sel := a.getSelectedPair()
		selListed := sel == nil
		for _, p := range a.checklist {
			key := p.Local.addr().String() + ">" + p.Remote.addr().String()
			if seenPair[key] {
				m.problem("", "pair %s is listed twice", key)
			}
			seenPair[key] = true
			if seenID[p.id] {
				m.problem("", "pair id %d is used twice", p.id)
			}
			seenID[p.id] = true
			if a.pairsByID[p.id] != p {
				m.problem("", "pairsByID[%d] does not point at the listed pair %s", p.id, key)
			}
			if memo, ok := m.idMemo[p.id]; ok && (memo.local != p.Local.addr().String() || memo.remote != p.Remote.addr().String()) {
				m.problem("", "pair id %d denoted %s>%s earlier in this generation and now denotes %s", p.id, memo.local, memo.remote, key)
			}
			m.idMemo[p.id] = bookPairMemo{p.Local.addr().String(), p.Remote.addr().String()}
			if !locals[p.Local] {
				m.problem("", "pair %s: local candidate is not a current local candidate", key)
			}
			if !remotes[p.Remote] {
				m.problem("", "pair %s: remote candidate is not a current remote candidate", key)
			}
			if p.Local.NetworkType() != p.Remote.NetworkType() {
				m.problem("", "pair %s mixes network types %s and %s", key, p.Local.NetworkType(), p.Remote.NetworkType())
			}
			if p == sel {
				selListed = true
			}
		}
		if len(a.pairsByID) != len(a.checklist) {
			m.problem("", "pairsByID has %d entries for %d listed pairs", len(a.pairsByID), len(a.checklist))
		}
		if !selListed {
			m.problem("", "the selected pair %s>%s is not one of the listed pairs", sel.Local.addr(), sel.Remote.addr())
		}
		for _, pr := range a.pendingBindingRequests {
			if m.oldTx[pr.transactionID] {
				m.problem("", "an outstanding transaction of an ended generation survived")
			}
		}
	})
	// supersession: a prflx remote replaced by a signalled candidate keeps id, state, priority, statistics, flags, selection
	now := m.rows()
	for key, old := range m.lastRows {
		cur, ok := now[key]
		if !ok || !strings.HasPrefix(ev, "addRemote") {
			continue
		}
		if old.rtype == "prflx" && cur.rtype != "prflx" {
			if cur.id != old.id || cur.state != old.state || cur.prio != old.prio || cur.nominated != old.nominated || cur.deferred != old.deferred ||
				cur.reqs != old.reqs || cur.reqSent != old.reqSent || cur.respRecv != old.respRecv || cur.selected != old.selected {
				m.problem("", "supersession of the peer-reflexive remote in pair %s changed the pair: before %+v after %+v", key, old, cur)
			}
		}
	}
	// the public views agree with the list
	stats = a.GetCandidatePairsStats()
	if len(stats) != len(now) && a.connectionState != ConnectionStateClosed {
		m.problem("", "GetCandidatePairsStats reports %d pairs, %d are listed", len(stats), len(now))
	}
	if m.x.conn != nil {
		infos := m.x.conn.GetCandidatePairsInfo()
		ids := map[uint64]bool{}
		for _, in := range infos {
			if ids[in.ID] {
				m.problem("", "GetCandidatePairsInfo reports id %d twice", in.ID)
			}
			ids[in.ID] = true
		}
		if len(infos) != len(now) {
			m.problem("", "GetCandidatePairsInfo reports %d pairs, %d are listed", len(infos), len(now))
		}
	}
}

func (m *bookModel) Key() (string, []int) {
	var memo []string
	for id, pm := range m.idMemo {
		memo = append(memo, fmt.Sprintf("%d=%s>%s", id, pm.local, pm.remote))
	}
	sort.Strings(memo)
	a := m.x.agent
	var ids []string
	_ = a.loop.Run(a.loop, func(context.Context) {
		for _, p := range a.checklist {
			ids = append(ids, fmt.Sprintf("%d:%s>%s", p.id, p.Local.addr(), p.Remote.addr()))
		}
		ids = append(ids, fmt.Sprintf("next=%d", a.nextPairID))
	})
	sort.Strings(ids)

	return m.canon() + " ids=" + strings.Join(ids, ",") + " memo=" + strings.Join(memo, ",") + fmt.Sprintf(" gen=%d failed=%v added=%v old=%d", m.x.gen, m.failed, m.added, len(m.oldAddrs)), []int{m.depth}
}

func (m *bookModel) Problems() []vtProblem {
	p := m.problems
	m.problems = nil

	return p
}

func (m *bookModel) Finish() []vtProblem { return nil }

func checkC06(c *runCtx) {
	c.assume("the agent is started before the first event; local candidates enter through addCandidate (as gathering does), remote ones through AddRemoteCandidate and through authenticated inbound checks",
		"pair ids: 'never reused within a generation' is checked against the harness's own id -> address-pair memo, reset at Restart (Failed releases the pairs, the generation and its ids go on)")
	p := newVTPool()
	defer p.close()
	dl := c01deadline(c, 240, 1500)
	depth := 6
	if !c.quick() {
		depth = 7
	}
	// the remote IP filter against every form an address can arrive in (its own world: IPv4 and IPv6 local candidates)
	if probs, n := c06filterForms(c.t); true {
		c.add("transitions", n)
		for _, pr := range probs {
			c.violation("", "remote IP filter: "+pr, map[string]any{"part": "filter-forms"})
		}
	}
	for _, role := range []string{"controlling", "controlled"} {
		name := fmt.Sprintf("bookkeeping, %s, all sequences of length <= %d", role, depth)
		if only := os.Getenv("VERIF_ONLY"); only != "" && !strings.Contains(name, only) {
			continue
		}
		vtSearch(c, p, vtSpec{Name: name, Model: "book", Cfg: soloCfg{Role: role, Depth: depth}, Deadline: dl})
	}
}
