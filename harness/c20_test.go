package ice

// C20 — renomination: the latest nomination wins on both sides. Engine VT (+ the codec part of C16).

import (
	"encoding/json"
	"errors"
	"fmt"
	"os"
	"sort"
	"strings"

	"github.com/pion/stun/v3"
)

func init() {
	registerCheck("C20", checkC20)
	vReplayers["C20"] = vtReplay
	vtModels["renom"] = func(cfg json.RawMessage) vtModel { return newRenomModel(cfg) }
}

type renomIssued struct {
	value int
	pair  string // "a-sock|b-wire-addr"
	tx    [stun.TransactionIDSize]byte
}

type renomModel struct {
	*pairModel
	renoms     int
	depth      int
	issued     []renomIssued
	delivered  []renomIssued // valued nominations delivered to B, in delivery order (pair as seen by B: "b-sock|a-addr")
	bValidAt   map[string]bool
	droppedTx  map[[stun.TransactionIDSize]byte]string // tx -> "request" | "response" dropped by the history
	maxRenoms  int
	maxDepth   int
	lastBSel   string
	deferredAt map[int]bool // nomination value -> it reached B while the target pair was not yet valid
}

type renomCfg struct {
	pairCfg
	Renoms int `json:"renoms"`
	Depth  int `json:"depth"`
	// Hold lists datagram classes ("b0>a1:request") that the connecting prefix leaves in flight
	Hold []string `json:"hold,omitempty"`
}

func newRenomModel(raw json.RawMessage) *renomModel {
	var rc renomCfg
	if err := json.Unmarshal(raw, &rc); err != nil {
		panic(err)
	}
	rc.pairCfg.Renom = true
	base, _ := json.Marshal(rc.pairCfg)
	m := &renomModel{pairModel: &pairModel{pairWorld: newPairWorld(base)}, bValidAt: map[string]bool{}, droppedTx: map[[stun.TransactionIDSize]byte]string{},
		maxRenoms: rc.Renoms, maxDepth: rc.Depth, deferredAt: map[int]bool{}}
	// connect by the shortest default schedule and stop there: whatever is still in flight stays in flight
	for i := 0; i < 200; i++ {
		if m.side[0].agent.getSelectedPair() != nil && m.side[1].agent.getSelectedPair() != nil {
			break
		}
		next := -1
		for _, d := range m.inflight {
			held := false
			if dst := m.routable(d.srcSock, d.dst); dst != nil {
				si := describeSTUN(d.data)
				for _, h := range rc.Hold {
					held = held || h == d.srcSock+">"+dst.name+":"+si.class
				}
			}
			if !held {
				next = d.seq

				break
			}
		}
		if next >= 0 {
			m.deliver(next, true, false)
		} else if m.side[0].ticks <= m.side[1].ticks {
			m.tick(0)
		} else {
			m.tick(1)
		}
	}
	if m.side[0].agent.getSelectedPair() == nil || m.side[1].agent.getSelectedPair() == nil {
		panic("renom model: agents did not connect on the default schedule")
	}
	m.side[0].ticks, m.side[1].ticks = 0, 0
	m.lastBSel = m.bSel()
	prev := m.onDeliver
	m.onDeliver = func(dst *vsock, src string, data []byte) {
		prev(dst, src, data)
		if dst.name[0] != 'b' {
			return
		}
		si := describeSTUN(data)
		if si.isSTUN && si.class == "request" && si.nom >= 0 {
			key := dst.name + "|" + src
			m.delivered = append(m.delivered, renomIssued{value: si.nom, pair: key, tx: si.tx})
			if !m.ledgers[1].answered[key] {
				m.deferredAt[si.nom] = true
			}
		}
	}

	return m
}

func (m *renomModel) bSel() string {
	sp := m.side[1].agent.getSelectedPair()
	if sp == nil {
		return ""
	}

	return m.sockNameOfLocal(sp.Local) + "|" + sp.Remote.addr().String()
}

// validPairsA lists A's pairs in state succeeded, canonically named.
func (m *renomModel) validPairsA() []string {
	var out []string
	a := m.side[0].agent
	for _, p := range a.checklist {
		if p.state == CandidatePairStateSucceeded {
			out = append(out, m.sockNameOfLocal(p.Local)+"|"+p.Remote.addr().String())
		}
	}
	sort.Strings(out)

	return out
}

func (m *renomModel) Enabled() []string {
	if m.maxDepth > 0 && m.depth >= m.maxDepth {
		return nil
	}
	evs := append(m.tickEvents(), m.netEvents()...)
	evs = append(evs, m.unsignalled()...)
	if m.renoms < m.maxRenoms {
		for _, p := range m.validPairsA() {
			evs = append(evs, "renom:"+p)
		}
	}

	return evs
}

func (m *renomModel) Apply(ev string) {
	m.depth++
	kind, arg, _ := strings.Cut(ev, ":")
	switch kind {
	case "renom":
		m.renoms++
		a := m.side[0].agent
		var target *CandidatePair
		for _, p := range a.checklist {
			if m.sockNameOfLocal(p.Local)+"|"+p.Remote.addr().String() == arg {
				target = p
			}
		}
		if target == nil {
			panic("replay divergence: no pair " + arg)
		}
		n := len(m.sentLog)
		if err := a.RenominateCandidate(target.Local, target.Remote); err != nil {
			m.problem("", "RenominateCandidate on a valid pair failed: %v", err)
		}
		for _, d := range m.sentLog[n:] {
			si := describeSTUN(d.data)
			if si.nom >= 0 {
				m.issued = append(m.issued, renomIssued{value: si.nom, pair: arg, tx: si.tx})
				// what the application's generator handed out is what goes on the wire (every value below 2^24 fits the attribute)
				if g := m.side[0].genVals; len(g) > 0 && g[len(g)-1] < 1<<24 && int(g[len(g)-1]) != si.nom {
					m.problem("", "the generator issued nomination value %d, the request carries %d", g[len(g)-1], si.nom)
				}
			}
		}
	case "drop":
		var seq int
		fmt.Sscan(arg, &seq) //nolint:errcheck
		if i := m.find(seq); i >= 0 {
			si := describeSTUN(m.inflight[i].data)
			if si.class == "request" {
				m.droppedTx[si.tx] = "request"
			} else {
				m.droppedTx[si.tx] = "response"
			}
		}
		m.applyBasic(ev)
	case "signal":
		i, j := int(arg[0]-'0'), 0
		fmt.Sscan(arg[2:], &j) //nolint:errcheck
		m.signalOne(m.side[i], m.side[1-i], j)
	default:
		if !m.applyBasic(ev) {
			panic("unknown event " + ev)
		}
	}
	m.checkB()
}

// checkB is the every-state oracle on the controlled side.
func (m *renomModel) checkB() {
	cur := m.bSel()
	prev := m.lastBSel
	m.lastBSel = cur
	// the reference: highest valued nomination delivered so far and its pair
	best := renomIssued{value: -1}
	for _, d := range m.delivered {
		if d.value > best.value {
			best = d
		}
	}
	if cur != prev && best.value >= 0 {
		// with valued nominations in play, B may only move to the pair of the highest value delivered so far
		if cur != best.pair {
			m.problem(m.classify(), "controlled agent moved its selection from %s to %s although the highest nomination value delivered so far (%d) names %s", prev, cur, best.value, best.pair)
		}
	}
	if best.value >= 0 && m.ledgers[1].answered[best.pair] && cur != best.pair {
		m.problem(m.classify(), "controlled agent is on %s although nomination value %d (the highest delivered) names %s, which is valid on the controlled side", cur, best.value, best.pair)
	}
}

// classify attributes a renomination failure to a known root cause, if it matches one.
func (m *renomModel) classify() string {
	if len(m.issued) == 0 {
		return ""
	}
	top := m.issued[len(m.issued)-1]
	for _, is := range m.issued {
		if is.value > top.value {
			top = is
		}
	}
	// S12: the history dropped the highest-valued renomination request or its success response
	if m.droppedTx[top.tx] != "" {
		return "S12"
	}
	// S11: a valued nomination reached the controlled agent while the target pair was not yet valid there,
	// and the controlled agent sits on a pair of higher priority than the nominated one
	best := renomIssued{value: -1}
	for _, d := range m.delivered {
		if d.value > best.value {
			best = d
		}
	}
	if best.value >= 0 && m.deferredAt[best.value] {
		b := m.side[1].agent
		var nominated *CandidatePair
		for _, p := range b.checklist {
			if m.sockNameOfLocal(p.Local)+"|"+p.Remote.addr().String() == best.pair {
				nominated = p
			}
		}
		if sp := b.getSelectedPair(); sp != nil && nominated != nil && sp != nominated && sp.priority() > nominated.priority() {
			return "S11"
		}
	}

	return ""
}

func (m *renomModel) Key() (string, []int) {
	var is []string
	for _, x := range m.issued {
		is = append(is, fmt.Sprintf("%d@%s", x.value, x.pair))
	}
	var ds []string
	for _, x := range m.delivered {
		ds = append(ds, fmt.Sprintf("%d@%s", x.value, x.pair))
	}
	var dr []string
	for tx, what := range m.droppedTx {
		for _, x := range m.issued {
			if x.tx == tx {
				dr = append(dr, fmt.Sprintf("%d:%s", x.value, what))
			}
		}
	}
	sort.Strings(dr)
	k := m.canon() + " issued=" + strings.Join(is, ",") + " delivered=" + strings.Join(ds, ",") + " dropped=" + strings.Join(dr, ",") + " ledgerB=" + m.ledgers[1].summary()

	return k, []int{m.side[0].ticks, m.side[1].ticks, m.drops, m.dups, m.renoms, m.depth}
}

func (m *renomModel) Problems() []vtProblem {
	p := m.problems
	m.problems = nil

	return p
}

func (m *renomModel) Finish() []vtProblem {
	m.fairSuffix(4, func() bool { return false })
	m.checkB()
	sa, sb := m.side[0].agent.getSelectedPair(), m.side[1].agent.getSelectedPair()
	if sa == nil || sb == nil {
		m.problem("", "an agent lost its selection: A=%v B=%v", sa, sb)

		return m.Problems()
	}
	aKey := m.sockNameOfLocal(sa.Local) + "|" + sa.Remote.addr().String()
	mirror := m.localWire(sa.Local) == sb.Remote.addr().String() && m.localWire(sb.Local) == sa.Remote.addr().String()
	if !mirror {
		m.problem(m.classify(), "after the exchange has quiesced the agents are on different pairs: A %s>%s, B %s>%s (issued %v)", sa.Local.addr(), sa.Remote.addr(), sb.Local.addr(), sb.Remote.addr(), m.issuedList())
	}
	if len(m.issued) > 0 {
		top := m.issued[0]
		for _, is := range m.issued {
			if is.value > top.value {
				top = is
			}
		}
		if aKey != top.pair {
			m.problem(m.classify(), "the controlling agent ended on %s although the highest nomination value it issued (%d) names %s", aKey, top.value, top.pair)
		}
	}

	return m.Problems()
}

func (m *renomModel) issuedList() []string {
	var is []string
	for _, x := range m.issued {
		is = append(is, fmt.Sprintf("%d@%s", x.value, x.pair))
	}

	return is
}

func checkC20(c *runCtx) {
	c.assume("renomination values come from the generator handed to WithRenomination: 1,2,3,... and, in one configuration, the non-monotonic 2,1,3", "automatic renomination (RTT heuristics) is disabled",
		"the session is first connected by the shortest default schedule; datagrams still in flight at that moment stay in flight")
	// ---- API preconditions (BE-style, one bubble each)
	inBubble(c.t, func() {
		for _, tc := range []struct {
			role  string
			renom bool
			want  error
		}{{"controlled", true, ErrOnlyControllingAgentCanRenominate}, {"controlling", false, ErrRenominationNotEnabled}, {"controlling", true, nil}} {
			raw, _ := json.Marshal(soloCfg{Role: tc.role, Renom: tc.renom, Locals: 1, Remotes: 1})
			sw := newSoloWorld(raw)
			sw.establish()
			n := len(sw.sentLog)
			sp := sw.x.agent.getSelectedPair()
			err := sw.x.agent.RenominateCandidate(sp.Local, sp.Remote)
			if !errors.Is(err, tc.want) {
				c.violation("", fmt.Sprintf("RenominateCandidate with role=%s renomination=%v returned %v, want %v", tc.role, tc.renom, err, tc.want), tc.role)
			}
			if tc.want != nil && len(sw.sentLog) != n {
				c.violation("", fmt.Sprintf("refused RenominateCandidate (role=%s renomination=%v) still emitted %d datagram(s)", tc.role, tc.renom, len(sw.sentLog)-n), tc.role)
			}
			if tc.want == nil {
				if len(sw.sentLog) != n+1 || describeSTUN(sw.sentLog[n].data).nom != 1 || !describeSTUN(sw.sentLog[n].data).uc {
					c.violation("", "accepted RenominateCandidate did not emit exactly one request carrying USE-CANDIDATE and nomination value 1", tc.role)
				}
			}
			sw.Close()
		}
	})
	p := newVTPool()
	defer p.close()
	dl := c01deadline(c, 240, 1500)
	h1, h2 := []string{"host"}, []string{"host", "host"}
	lowHigh := []uint32{2130706431, 1000}
	type sp struct {
		name string
		cfg  renomCfg
	}
	specs := []sp{
		{"2x1, <=2 renominations, <=1 dup, depth<=8", renomCfg{pairCfg{KindsA: h2, KindsB: h1, PrioA: lowHigh, Ticks: 1, Dups: 1}, 2, 8, nil}},
		{"2x1, <=1 renomination, <=1 drop, depth<=7", renomCfg{pairCfg{KindsA: h2, KindsB: h1, PrioA: lowHigh, Ticks: 1, Drops: 1}, 1, 7, nil}},
	}
	specs = append(specs,
		sp{"2x1, controlled side's check on the second pair still in flight, <=2 renominations, <=1 dup, depth<=8", renomCfg{pairCfg{KindsA: h2, KindsB: h1, PrioA: lowHigh, Ticks: 1, Dups: 1}, 2, 8, []string{"b0>a1:request"}}},
		sp{"2x1, answer to the controlled side's check on the second pair still in flight, <=2 renominations, depth<=8", renomCfg{pairCfg{KindsA: h2, KindsB: h1, PrioA: lowHigh, Ticks: 1}, 2, 8, []string{"a1>b0:success response"}}},
	)
	specs = append(specs,
		sp{"2x1, A's second candidate reaches B only later (peer-reflexive first), B's check on it still in flight, <=2 renominations, depth<=8", renomCfg{pairCfg{KindsA: h2, KindsB: h1, PrioA: lowHigh, Ticks: 1, HoldSignal: []string{"0:1"}}, 2, 8, []string{"b0>a1:request"}}},
	)
	specs = append(specs,
		sp{"2x1, generator with values across the upper range of the 24-bit field (0xFFFF0, 0x100001, 0xFFFFFF), <=3 renominations, <=1 dup, depth<=8", renomCfg{pairCfg{KindsA: h2, KindsB: h1, PrioA: lowHigh, Ticks: 1, Dups: 1, NomValues: []uint32{0xFFFF0, 0x100001, 0xFFFFFF}}, 3, 8, nil}},
		sp{"2x1, application generator that is not monotonic (2,1,3), <=2 renominations, <=1 dup, depth<=8", renomCfg{pairCfg{KindsA: h2, KindsB: h1, PrioA: lowHigh, Ticks: 1, Dups: 1, NomValues: []uint32{2, 1, 3}}, 2, 8, nil}},
	)
	if !c.quick() {
		specs = append(specs,
			sp{"2x1, generator (2,1,3), <=3 renominations, <=1 drop, depth<=10", renomCfg{pairCfg{KindsA: h2, KindsB: h1, PrioA: lowHigh, Ticks: 1, Drops: 1, NomValues: []uint32{2, 1, 3}}, 3, 10, nil}},
			sp{"2x1, <=3 renominations, <=1 drop, <=1 dup, depth<=11", renomCfg{pairCfg{KindsA: h2, KindsB: h1, PrioA: lowHigh, Ticks: 1, Drops: 1, Dups: 1}, 3, 11, nil}},
			sp{"2x2, <=2 renominations, <=1 dup, depth<=9", renomCfg{pairCfg{KindsA: h2, KindsB: h2, PrioA: lowHigh, PrioB: lowHigh, Ticks: 1, Dups: 1}, 2, 9, []string{"b0>a1:request", "b1>a1:request"}}},
		)
	}
	if only := os.Getenv("VERIF_ONLY"); only != "" {
		var f []sp
		for _, s := range specs {
			if strings.Contains(s.name, only) {
				f = append(f, s)
			}
		}
		specs = f
	}
	for _, s := range specs {
		vtSearch(c, p, vtSpec{Name: s.name, Model: "renom", Cfg: s.cfg, Finish: true, Deadline: dl})
	}
	if os.Getenv("VERIF_ONLY") == "" {
		checkRenominateRace(c, dl)
	}
}
