package ice

// C12, concurrent part: engine CS scenarios on the UDP mux group.

import (
	"fmt"
	"net"
	"strings"
	"testing/synctest"
	"time"

	"github.com/pion/ice/v4/internal/zzmc"
)

func init() {
	csScenarios["mux-dispatch-takeover-remove"] = c12dispatch
	csScenarios["mux-close-vs-getconn"] = c12closeGet
	csScenarios["tcpmux-close-vs-getconn"] = c15closeGet
}

func c12poll(h net.PacketConn) []string {
	var out []string
	for {
		_ = h.SetReadDeadline(time.Now().Add(-time.Second))
		buf := make([]byte, 2000)
		n, from, err := h.ReadFrom(buf)
		if err != nil {
			return out
		}
		tag := string(buf[:n])
		if i := strings.Index(tag, "tag="); i >= 0 {
			tag = tag[i+4 : i+6]
		}
		out = append(out, fmt.Sprintf("%s@%v", tag, from))
	}
}

// c12dispatch: the worker dispatches three datagrams while another connection takes an address over and
// the first connection is removed.
func c12dispatch() zzmc.Scenario {
	return zzmc.Scenario{
		Name:     "mux-dispatch-takeover-remove",
		Focus:    []string{"udp_mux.go", "udp_muxed_conn.go", "shared_packet_conn.go"},
		MaxSteps: 1500,
		Setup: func(s *zzmc.Sched) func(string) (string, string) {
			fb := newFakeBottom(false)
			m := NewUDPMuxDefault(UDPMuxParams{UDPConn: fb, Logger: nopLogger{}})
			h1, err := m.GetConn("u1", fb.LocalAddr())
			if err != nil {
				panic(err)
			}
			h2, _ := m.GetConn("u2", fb.LocalAddr())
			u1 := m.connsIPv4["u1"]
			x, y := "192.0.2.1:5000", "192.0.2.2:5000"
			xa, _ := net.ResolveUDPAddr("udp", x)
			mk := func(user, tag string) []byte {
				if user == "" {
					return []byte("\xffdata tag=" + tag)
				}
				p := muxPayload(user, 0)

				return p
			}
			d1 := mk("u1:r", "d1")
			d2 := mk("", "d2")
			d3 := mk("u2:r", "d3")
			fail := ""
			queuedAtRemove := -1
			qlen := func(c *udpMuxedConn) int {
				n := 0
				c.mu.Lock()
				for p := c.bufTail; p != nil; p = p.next {
					n++
				}
				c.mu.Unlock()

				return n
			}
			s.Go("ENV", func() {
				fb.rx <- rxPacket{x, d1}
				zzmc.HarnessPoint("env.1")
				fb.rx <- rxPacket{x, d2}
				zzmc.HarnessPoint("env.2")
				fb.rx <- rxPacket{y, d3}
			})
			s.Go("W", func() {
				if _, err := h2.WriteTo([]byte("x"), xa); err != nil {
					fail += "SIBLING-WRITE-FAILED "
				}
			})
			s.Go("RM", func() {
				m.RemoveConnByUfrag("u1")
				queuedAtRemove = qlen(u1)
			})

			return func(dead string) (string, string) {
				synctest.Wait()
				if queuedAtRemove >= 0 && qlen(u1) > queuedAtRemove {
					fail += "DELIVERED-TO-REMOVED-CONNECTION-AFTER-REMOVE-RETURNED "
				}
				got1 := c12poll(h1)
				got2 := c12poll(h2)
				// d3 is for u2 whatever happens; d2 (data from X) may only go to u2 (after its takeover); d1 to u1 or u2
				n3 := 0
				for _, g := range got2 {
					if strings.Contains(g, y) {
						n3++
					}
				}
				if n3 != 1 {
					fail += fmt.Sprintf("U2-STUN-DELIVERED-%d-TIMES ", n3)
				}
				for _, g := range got1 {
					if strings.HasPrefix(g, "d2") {
						fail += "DATA-FROM-X-DELIVERED-TO-U1 "
					}
					if strings.Contains(g, y) {
						fail += "U2-TRAFFIC-DELIVERED-TO-U1 "
					}
				}
				if len(got1)+len(got2) > 3 {
					fail += "DUPLICATE-DELIVERY "
				}
				// per-connection order = arrival order (d1 before d2 before d3)
				order := func(got []string) string {
					last := 0
					for _, g := range got {
						k := 1
						switch {
						case strings.HasPrefix(g, "d2"):
							k = 2
						case strings.Contains(g, y):
							k = 3
						}
						if k < last {
							return "REORDERED "
						}
						last = k
					}

					return ""
				}
				fail += order(got1) + order(got2)
				out := fmt.Sprintf("u1=%d u2=%d", len(got1), len(got2))
				_ = h1.Close()
				_ = h2.Close()
				_ = m.Close()

				return out, fail
			}
		},
	}
}

// c12closeGet: one user closes its handle while another asks for the same ufrag.
func c12closeGet() zzmc.Scenario {
	return zzmc.Scenario{
		Name:     "mux-close-vs-getconn",
		Focus:    []string{"udp_mux.go", "udp_muxed_conn.go", "shared_packet_conn.go"},
		MaxSteps: 1500,
		Setup: func(s *zzmc.Sched) func(string) (string, string) {
			fb := newFakeBottom(false)
			m := NewUDPMuxDefault(UDPMuxParams{UDPConn: fb, Logger: nopLogger{}})
			h1, err := m.GetConn("u1", fb.LocalAddr())
			if err != nil {
				panic(err)
			}
			other, _ := m.GetConn("u2", fb.LocalAddr())
			var h1b net.PacketConn
			var gerr error
			fail := ""
			s.Go("C", func() { _ = h1.Close() })
			s.Go("G", func() { h1b, gerr = m.GetConn("u1", fb.LocalAddr()) })

			return func(dead string) (string, string) {
				synctest.Wait()
				out := "getconn-failed"
				if gerr == nil {
					// the handle just obtained must be a working connection for its ufrag
					fb.rx <- rxPacket{"192.0.2.1:5000", muxPayload("u1:r", 1)}
					synctest.Wait()
					got := c12poll(h1b)
					out = fmt.Sprintf("delivered=%d", len(got))
					if len(got) != 1 {
						fail += fmt.Sprintf("HANDLE-FROM-GETCONN-RECEIVES-NOTHING(%d) ", len(got))
					}
					if _, err := h1b.WriteTo([]byte("x"), &net.UDPAddr{IP: net.ParseIP("192.0.2.7"), Port: 1}); err != nil {
						fail += "HANDLE-FROM-GETCONN-CANNOT-WRITE:" + err.Error() + " "
					}
					_ = h1b.Close()
				} else {
					fail += "GETCONN-FAILED:" + gerr.Error() + " "
				}
				fb.rx <- rxPacket{"192.0.2.2:5000", muxPayload("u2:r", 2)}
				synctest.Wait()
				if len(c12poll(other)) != 1 {
					fail += "OTHER-UFRAG-DISTURBED "
				}
				_ = other.Close()
				_ = m.Close()

				return out, fail
			}
		},
	}
}

// c15closeGet: TCP mux, one user closes the last handle of a ufrag while another asks for the same ufrag.
func c15closeGet() zzmc.Scenario {
	return zzmc.Scenario{
		Name:     "tcpmux-close-vs-getconn",
		Focus:    []string{"tcp_mux.go", "tcp_packet_conn.go", "shared_packet_conn.go"},
		MaxSteps: 2000,
		Setup: func(s *zzmc.Sched) func(string) (string, string) {
			lis := &fakeLis{ch: make(chan net.Conn), closed: make(chan struct{}), addr: &net.TCPAddr{IP: net.ParseIP("10.0.0.1").To4(), Port: 7001}}
			m := NewTCPMuxDefault(TCPMuxParams{Listener: lis, Logger: nopLogger{}, ReadBufferSize: 16})
			ip := net.ParseIP("10.0.0.1").To4()
			h1, err := m.GetConnByUfrag("u1", false, ip)
			if err != nil {
				panic(err)
			}
			var h1b net.PacketConn
			var gerr error
			fail := ""
			s.Go("C", func() { _ = h1.Close() })
			s.Go("G", func() { h1b, gerr = m.GetConnByUfrag("u1", false, ip) })

			return func(dead string) (string, string) {
				synctest.Wait()
				out := "getconn-failed"
				if gerr != nil {
					fail += "GETCONN-FAILED:" + gerr.Error() + " "
				} else {
					// the handle just obtained must be the working connection of its ufrag
					got := make(chan string, 4)
					go func() {
						buf := make([]byte, 2000)
						for {
							n, from, err := h1b.ReadFrom(buf)
							if err != nil {
								if from == nil {
									close(got)

									return
								}

								continue
							}
							got <- fmt.Sprintf("%d@%v", n, from)
						}
					}()
					c, srv := newPipe(&net.TCPAddr{IP: net.ParseIP("192.0.2.9").To4(), Port: 40001}, lis.addr)
					lis.ch <- srv
					wire, _, _ := c15first("u1")
					_, _ = c.Write(wire)
					synctest.Wait()
					select {
					case g, ok := <-got:
						if !ok {
							fail += "HANDLE-FROM-GETCONN-IS-CLOSED "
						} else {
							out = "delivered " + g
						}
					default:
						fail += "HANDLE-FROM-GETCONN-RECEIVES-NOTHING "
					}
					_ = h1b.Close()
					_ = c.Close()
				}
				_ = m.Close()

				return out, fail
			}
		},
	}
}
