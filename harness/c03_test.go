package ice

// C03 — only validated and nominated pairs are ever selected. Engine VT.
// (i) the honest two-agent explorations of C01 with the selection ledger attached;
// (ii) agent X against a scripted authenticated peer that may misbehave.

import (
	"encoding/json"
	"fmt"
	"os"
	"strconv"
	"strings"

	"github.com/pion/stun/v3"
)

func init() {
	registerCheck("C03", checkC03)
	vReplayers["C03"] = vtReplay
	vtModels["xpeer"] = func(cfg json.RawMessage) vtModel { return &xpeerModel{soloWorld: newSoloWorld(cfg)} }
}

type xpeerModel struct {
	*soloWorld
	depth    int
	redos    int
	signaled map[int]bool // NoSignal configurations: remote candidate j has been signalled by an event
}

func (m *xpeerModel) Enabled() []string {
	if m.cfg.Depth > 0 && m.depth >= m.cfg.Depth {
		return nil
	}
	evs := []string{"tick"}
	for i := range m.x.socks {
		for j := range m.remotes {
			evs = append(evs, fmt.Sprintf("check:%d:%d:plain", i, j), fmt.Sprintf("check:%d:%d:uc", i, j))
			if m.cfg.Extra == "nomination-values" {
				evs = append(evs, fmt.Sprintf("check:%d:%d:nom1", i, j), fmt.Sprintf("check:%d:%d:nom2", i, j))
			}
		}
	}
	for _, d := range m.pendingOut() {
		evs = append(evs, fmt.Sprintf("answer:%d:ok", d.seq))
		if m.cfg.Extra == "unauthenticated-answers" {
			// one configuration: the answer comes from the right address with the right transaction id, but without
			// MESSAGE-INTEGRITY or signed with another key (the request stays outstanding; nothing may be validated by it)
			evs = append(evs, fmt.Sprintf("answer:%d:nomi", d.seq), fmt.Sprintf("answer:%d:badkey", d.seq), fmt.Sprintf("answer:%d:error", d.seq))
		}
		if len(m.remotes) > 1 {
			evs = append(evs, fmt.Sprintf("answer:%d:othersrc", d.seq))
		}
		if len(m.x.socks) > 1 {
			evs = append(evs, fmt.Sprintf("answer:%d:othersock", d.seq))
		}
	}
	if m.redos < 1 && len(m.peerMsgs) > 0 {
		evs = append(evs, "redo")
	}
	if m.cfg.NoSignal { // the peer's addresses are first learnt from its checks (peer-reflexive) and signalled later
		for j := range m.remotes {
			if !m.signaled[j] {
				evs = append(evs, fmt.Sprintf("signal:%d", j))
			}
		}
	}

	return evs
}

func (m *xpeerModel) send(to *vsock, from string, data []byte) {
	m.peerMsgs = append(m.peerMsgs, struct {
		to   string
		from string
		data []byte
	}{to.name, from, data})
	m.inject(to, from, data)
}

func (m *xpeerModel) Apply(ev string) {
	m.depth++
	f := strings.Split(ev, ":")
	switch f[0] {
	case "tick":
		m.tick()
	case "check":
		i, _ := strconv.Atoi(f[1])
		j, _ := strconv.Atoi(f[2])
		nom := -1
		if strings.HasPrefix(f[3], "nom") {
			nom, _ = strconv.Atoi(f[3][3:])
		}
		m.send(m.x.socks[i], m.remotes[j].addr.String(), m.peerRequest(peerReqOpts{uc: f[3] != "plain", nom: nom, prio: int64(1000 + 10*j)}))
	case "answer":
		seq, _ := strconv.Atoi(f[1])
		idx := m.find(seq)
		if idx < 0 {
			panic("replay divergence: request " + f[1] + " not outstanding")
		}
		d := m.inflight[idx]
		var to *vsock
		for _, s := range m.x.socks {
			if s.name == d.srcSock {
				to = s
			}
		}
		from := d.dst
		switch f[2] {
		case "ok":
			m.removeInflight(seq)
		case "othersrc":
			for _, r := range m.remotes {
				if r.addr.String() != d.dst {
					from = r.addr.String()

					break
				}
			}
		case "othersock":
			for _, s := range m.x.socks {
				if s.name != d.srcSock {
					to = s

					break
				}
			}
		}
		key := ""
		switch f[2] {
		case "nomi":
			key = "-"
		case "badkey":
			key = "not the remote password at all!!"
		}
		class := stun.ClassSuccessResponse
		if f[2] == "error" { // correctly signed, right transaction, right source - but an error response (487)
			class = stun.ClassErrorResponse
		}
		m.send(to, from, m.peerResponse(d.data, class, key, d.src))
	case "signal":
		j, _ := strconv.Atoi(f[1])
		if m.signaled == nil {
			m.signaled = map[int]bool{}
		}
		m.signaled[j] = true
		m.signalRemote(j)
	case "redo":
		m.redos++
		last := m.peerMsgs[len(m.peerMsgs)-1]
		m.inject(m.socks[last.to], last.from, last.data)
	default:
		panic("unknown event " + ev)
	}
	m.purge()
	if finding, msg := m.led.selectionVerdict(m.x.agent, m.sockName); msg != "" {
		m.problem(finding, "%s", msg)
	}
}

func (m *xpeerModel) Key() (string, []int) {
	last := ""
	if m.redos < 1 && len(m.peerMsgs) > 0 {
		l := m.peerMsgs[len(m.peerMsgs)-1]
		si := describeSTUN(l.data)
		last = fmt.Sprintf(" last=%s>%s %s uc=%v", l.from, l.to, si.class, si.uc)
		if si.class == "success response" {
			if tx, ok := m.led.txs[si.tx]; ok {
				last += fmt.Sprintf(" for %s>%s uc=%v %s", tx.sock, tx.dst, tx.uc, tx.state)
			}
		}
	}

	return m.canon() + " ledger=" + m.led.summary() + " sel=" + m.led.lastSel + last + fmt.Sprint(" signalled=", len(m.signaled)), []int{m.depth, m.redos}
}

func (m *xpeerModel) Problems() []vtProblem {
	a := m.x.agent
	// a selection must be announced to the application as it is
	if sp := a.getSelectedPair(); sp != nil && len(m.x.selLog) > 0 {
		if want := sp.Local.addr().String() + ">" + sp.Remote.addr().String(); m.x.selLog[len(m.x.selLog)-1] != want {
			m.problem("", "OnSelectedCandidatePairChange last reported %s, current selection is %s", m.x.selLog[len(m.x.selLog)-1], want)
		}
	}
	p := m.problems
	m.problems = nil

	return p
}

func (m *xpeerModel) Finish() []vtProblem { return nil }

func checkC03(c *runCtx) {
	c.assume("no application binding-request handler is installed (the statement's precondition)",
		"the scripted peer always authenticates correctly (unauthenticated traffic is C02's subject); it may send checks and USE-CANDIDATE on any pair at any time, answer from another known address, or deliver an answer at another local socket")
	p := newVTPool()
	defer p.close()
	dl := c01deadline(c, 240, 1500)
	depth := 5
	if !c.quick() {
		depth = 7
	}
	prL, prR := []uint32{2130706431, 2130706175}, []uint32{2130706431, 1694498815}
	type sp struct {
		name  string
		model string
		cfg   any
	}
	specs := []sp{
		{"X full controlling vs scripted peer", "xpeer", soloCfg{Role: "controlling", Locals: 2, Remotes: 2, PrioL: prL, PrioR: prR, Depth: depth}},
		{"X full controlled vs scripted peer", "xpeer", soloCfg{Role: "controlled", Locals: 2, Remotes: 2, PrioL: prL, PrioR: prR, Depth: depth}},
		{"X full controlled vs scripted peer that also uses nomination values", "xpeer", soloCfg{Role: "controlled", Locals: 1, Remotes: 2, PrioL: prL, PrioR: prR, Depth: depth, Extra: "nomination-values"}},
		{"X full controlled, the peer's address is learnt from its checks first and signalled later", "xpeer", soloCfg{Role: "controlled", Locals: 2, Remotes: 1, PrioL: prL, PrioR: prR, Depth: depth, NoSignal: true}},
		{"X full controlling, the peer's address is learnt from its checks first and signalled later", "xpeer", soloCfg{Role: "controlling", Locals: 2, Remotes: 1, PrioL: prL, PrioR: prR, Depth: depth, NoSignal: true}},
		{"X full controlling, the peer may also answer without MESSAGE-INTEGRITY, with another key, or with a signed error response", "xpeer", soloCfg{Role: "controlling", Locals: 1, Remotes: 2, PrioL: prL, PrioR: prR, Depth: depth, Extra: "unauthenticated-answers"}},
		{"X full controlled, the peer may also answer without MESSAGE-INTEGRITY, with another key, or with a signed error response", "xpeer", soloCfg{Role: "controlled", Locals: 1, Remotes: 2, PrioL: prL, PrioR: prR, Depth: depth, Extra: "unauthenticated-answers"}},
		{"X lite controlled vs scripted peer", "xpeer", soloCfg{Role: "controlled", Lite: true, Locals: 2, Remotes: 2, PrioL: prL, PrioR: prR, Depth: depth}},
		{"X lite controlled + use-candidate priority check vs scripted peer", "xpeer", soloCfg{Role: "controlled", Lite: true, UCPrio: true, Locals: 2, Remotes: 2, PrioL: prL, PrioR: prR, Depth: depth}},
		{"X lite controlling vs scripted peer", "xpeer", soloCfg{Role: "controlling", Lite: true, Locals: 2, Remotes: 2, PrioL: prL, PrioR: prR, Depth: depth - 1}},
		{"honest 1x1, full BFS, ledger attached", "pair", pairCfg{KindsA: []string{"host"}, KindsB: []string{"host"}, Ticks: 2, Drops: 1, Dups: 1, Monitor: true}},
		{"honest 2x2, D<=2, ledger attached", "pair", pairCfg{KindsA: []string{"host", "host"}, KindsB: []string{"host", "host"}, Ticks: 3, Drops: 2, Dups: 2, Dev: 2, Monitor: true}},
		{"honest 2x1 srflx + NAT, D<=2, ledger attached", "pair", pairCfg{KindsA: []string{"nat", "srflx"}, KindsB: []string{"host"}, Ticks: 3, Drops: 2, Dups: 2, Dev: 2, Monitor: true}},
		{"honest 1x1 trickled candidates, full BFS (reordering only), ledger attached", "pair", pairCfg{KindsA: []string{"host"}, KindsB: []string{"host"}, Trickle: true, Ticks: 2, Monitor: true}},
		{"honest 1x1 lite controlled peer, full BFS, ledger attached", "pair", pairCfg{KindsA: []string{"host"}, KindsB: []string{"host"}, LiteB: true, Ticks: 2, Drops: 1, Dups: 1, Monitor: true}},
	}
	if !c.quick() {
		specs = append(specs,
			sp{"honest 2x1, full BFS, ledger attached", "pair", pairCfg{KindsA: []string{"host", "host"}, KindsB: []string{"host"}, Ticks: 2, Drops: 1, Monitor: true}},
			sp{"honest 2x2, D<=3, ledger attached", "pair", pairCfg{KindsA: []string{"host", "host"}, KindsB: []string{"host", "host"}, Ticks: 3, Drops: 3, Dups: 3, Dev: 3, Monitor: true}},
			sp{"honest 2x2 lite controlled peer, D<=2, ledger attached", "pair", pairCfg{KindsA: []string{"host", "host"}, KindsB: []string{"host", "host"}, LiteB: true, Ticks: 3, Drops: 2, Dups: 2, Dev: 2, Monitor: true}},
		)
	}
	if only := os.Getenv("VERIF_ONLY"); only != "" {
		var f []sp
		for _, s := range specs {
			if strings.Contains(s.name, only) {
				f = append(f, s)
			}
		}
		specs = f
	}
	for _, s := range specs {
		vtSearch(c, p, vtSpec{Name: s.name, Model: s.model, Cfg: s.cfg, Deadline: dl})
	}
	if os.Getenv("VERIF_ONLY") == "" {
		checkRenominateRace(c, dl)
	}
}
