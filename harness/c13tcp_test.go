package ice

// C13, TCP half of the reference counting: two handles on the packet connection of one ufrag of a TCPMuxDefault
// (plus another ufrag), closed in every order and interleaving under the controlled scheduler.

import (
	"errors"
	"fmt"
	"io"
	"net"
	"testing"
	"testing/synctest"
	"time"

	"github.com/pion/ice/v4/internal/zzmc"
	"github.com/pion/stun/v3"
)

func init() {
	csScenarios["refcount-tcp"] = c13refcountTCP
}

func c13refcountTCP() zzmc.Scenario {
	return zzmc.Scenario{
		Name:     "refcount-tcp",
		Focus:    []string{"tcp_mux.go", "tcp_packet_conn.go", "shared_packet_conn.go"},
		MaxSteps: 3000,
		Setup: func(s *zzmc.Sched) func(string) (string, string) {
			lis := &fakeLis{ch: make(chan net.Conn), closed: make(chan struct{}), addr: &net.TCPAddr{IP: net.ParseIP("10.0.0.1").To4(), Port: 7001}}
			m := NewTCPMuxDefault(TCPMuxParams{Listener: lis, Logger: nopLogger{}, ReadBufferSize: 16})
			ip := net.ParseIP("10.0.0.1").To4()
			get := func(u string) net.PacketConn {
				h, err := m.GetConnByUfrag(u, false, ip)
				if err != nil {
					panic(err)
				}

				return h
			}
			h1, h2, other := get("u1"), get("u1"), get("u9")
			m.mu.Lock()
			var under *tcpPacketConn
			for _, c := range m.connsIPv4["u1"] {
				under = c
			}
			m.mu.Unlock()
			underClosed := func() bool { return under.isClosed() }
			fail := ""
			h1closed, h2closing := false, false
			r1done, r2done := false, false
			var r1err, c1err, c1berr error
			peer := &net.TCPAddr{IP: net.ParseIP("192.0.2.9").To4(), Port: 40001}
			s.Go("R1", func() {
				_, _, r1err = h1.ReadFrom(make([]byte, 64))
				r1done = true
				if r1err == nil {
					fail += "H1-READ-RETURNED-DATA "
				}
			})
			s.Go("C1", func() {
				c1err = h1.Close()
				h1closed = true
				if uc := underClosed(); uc && !h2closing { // observed closed first, and the sibling's own Close has not even begun afterwards
					fail += "UNDERLYING-CLOSED-WHILE-SIBLING-OPEN "
				}
				if _, err := h1.WriteTo([]byte("x"), peer); err == nil {
					fail += "WRITE-ON-CLOSED-HANDLE-SUCCEEDED "
				}
				if _, _, err := h1.ReadFrom(make([]byte, 8)); err == nil {
					fail += "READ-ON-CLOSED-HANDLE-SUCCEEDED "
				}
				c1berr = h1.Close()
				if uc := underClosed(); uc && !h2closing { // observed closed first, and the sibling's own Close has not even begun afterwards
					fail += "SECOND-CLOSE-RELEASED-SIBLING-REFERENCE "
				}
			})
			s.Go("R2", func() {
				_, _, err := h2.ReadFrom(make([]byte, 64))
				r2done = true
				if !h2closing {
					fail += fmt.Sprintf("SIBLING-READ-ENDED-BEFORE-ITS-CLOSE(%v) ", err)
				}
			})
			s.Go("C2", func() {
				zzmc.HarnessPoint("c2")
				h2closing = true
				_ = h2.Close()
				if h1closed && !underClosed() {
					fail += "UNDERLYING-NOT-CLOSED-AFTER-LAST-HANDLE "
				}
			})

			return func(dead string) (string, string) {
				if dead != "" {
					_ = h1.Close()
					_ = h2.Close()
				}
				synctest.Wait()
				if !r1done || !r2done {
					fail += "BLOCKED-READ-NOT-RELEASED "
				}
				if r1err != nil && !errors.Is(r1err, io.ErrClosedPipe) && !errors.Is(r1err, io.EOF) {
					fail += "H1-READ-ERROR-NOT-CLOSED:" + r1err.Error() + " "
				}
				if c1err != nil || c1berr != nil {
					fail += "CLOSE-RETURNED-ERROR "
				}
				if !underClosed() {
					fail += "UNDERLYING-NEVER-CLOSED "
				}
				// the connection of u1 is gone from the registry, the other ufrag's is untouched and works
				m.mu.Lock()
				_, still := m.connsIPv4["u1"]
				m.mu.Unlock()
				if still {
					fail += "CLOSED-CONNECTION-STILL-REGISTERED "
				}
				got := make(chan string, 4)
				go func() {
					buf := make([]byte, 2000)
					for {
						n, from, err := other.ReadFrom(buf)
						if err != nil {
							if from == nil {
								close(got)

								return
							}

							continue
						}
						got <- fmt.Sprintf("%d@%v", n, from)
					}
				}()
				c, srv := newPipe(peer, lis.addr)
				lis.ch <- srv
				wire, _, _ := c15first("u9")
				_, _ = c.Write(wire)
				synctest.Wait()
				out := ""
				select {
				case g, ok := <-got:
					if !ok {
						fail += "OTHER-UFRAG-CLOSED "
					} else {
						out = "other ufrag delivered " + g
					}
				default:
					fail += "OTHER-UFRAG-RECEIVES-NOTHING "
				}
				_ = other.Close()
				_ = c.Close()
				_ = m.Close()

				return out, fail
			}
		},
	}
}

// ---------------------------------------------------------------- a datagram arriving while one of two handles is closed

func init() {
	csScenarios["refcount-udp-inbound"] = c13refcountInbound
}

// c13refcountInbound: two handles on one ufrag, a reader blocked on each; one datagram for the ufrag arrives while the
// first handle is closed. "Closing one handle ... leaves sibling handles fully usable": the datagram reaches a reader
// whose handle is open — it is never left in the queue behind a reader that went away.
func c13refcountInbound() zzmc.Scenario {
	return zzmc.Scenario{
		Name:     "refcount-udp-inbound",
		Focus:    []string{"udp_mux.go", "udp_muxed_conn.go", "shared_packet_conn.go"},
		MaxSteps: 1500,
		Setup: func(s *zzmc.Sched) func(string) (string, string) {
			fb := newFakeBottom(false)
			m := NewUDPMuxDefault(UDPMuxParams{UDPConn: fb, Logger: nopLogger{}, Net: vNet{}})
			h1, err := m.GetConn("u1", fb.LocalAddr())
			if err != nil {
				panic(err)
			}
			h2, _ := m.GetConn("u1", fb.LocalAddr())
			req, err := stun.Build(stun.BindingRequest, stun.TransactionID, stun.NewUsername("u1:r"), stun.Fingerprint)
			if err != nil {
				panic(err)
			}
			fail := ""
			got1, got2 := 0, 0
			var e1 error
			h1closing := false
			// the readers do not keep the execution alive: one of them stays blocked for good (there is one datagram)
			s.GoDaemon("R1", func() {
				n, _, err := h1.ReadFrom(make([]byte, 1500))
				if err == nil && n > 0 {
					got1++
				}
				e1 = err
			})
			s.GoDaemon("R2", func() {
				n, _, err := h2.ReadFrom(make([]byte, 1500))
				if err == nil && n > 0 {
					got2++
				}
			})
			s.Go("IN", func() { fb.rx <- rxPacket{"10.0.0.9:9", req.Raw} })
			s.Go("C1", func() {
				h1closing = true
				_ = h1.Close()
			})

			return func(dead string) (string, string) {
				synctest.Wait()
				if got1+got2 > 1 {
					fail += "DATAGRAM-DELIVERED-TWICE "
				}
				if got1+got2 == 0 && dead == "" {
					fail += "DATAGRAM-STUCK-BEHIND-A-CLOSED-HANDLE(the open sibling's reader is still asleep) "
				}
				if got1 == 0 && e1 == nil && dead == "" && h1closing {
					fail += "READ-ON-CLOSED-HANDLE-STILL-BLOCKED "
				}
				_ = h2.Close()
				_ = m.Close()

				return fmt.Sprintf("r1=%d r2=%d", got1, got2), fail
			}
		},
	}
}

// ---------------------------------------------------------------- C15: one ufrag on two local addresses

// c15twoLocals: a ufrag has a packet connection per local address. Closing the last handle of one of them leaves the
// other registered and working, and the mux's Close still ends everything. Both orders; returns the problems found.
func c15twoLocals(t *testing.T) (problems []string, n int) {
	for _, first := range []int{0, 1} {
		inBubble(t, func() {
			lis := &fakeLis{ch: make(chan net.Conn), closed: make(chan struct{}), addr: &net.TCPAddr{IP: net.ParseIP("10.0.0.1").To4(), Port: 7001}}
			m := NewTCPMuxDefault(TCPMuxParams{Listener: lis, Logger: nopLogger{}, ReadBufferSize: 16})
			ips := []net.IP{net.ParseIP("10.0.0.1").To4(), net.ParseIP("10.0.0.2").To4()}
			var hs [2]net.PacketConn
			for i, ip := range ips {
				h, err := m.GetConnByUfrag("u1", false, ip)
				if err != nil {
					panic(err)
				}
				hs[i] = h
			}
			other := 1 - first
			_ = hs[first].Close()
			synctest.Wait()
			n++
			// a client that connects to the other local address and names the ufrag reaches the handle that is still open
			got := make(chan string, 4)
			go func() {
				buf := make([]byte, 2000)
				for {
					k, from, err := hs[other].ReadFrom(buf)
					if err != nil {
						close(got)

						return
					}
					got <- fmt.Sprintf("%d@%v", k, from)
				}
			}()
			c, srv := newPipe(&net.TCPAddr{IP: net.ParseIP("192.0.2.9").To4(), Port: 40001}, &net.TCPAddr{IP: ips[other], Port: 7001})
			lis.ch <- srv
			wire, _, _ := c15first("u1")
			_, _ = c.Write(wire)
			synctest.Wait()
			select {
			case g, ok := <-got:
				if !ok {
					problems = append(problems, fmt.Sprintf("after the connection on %s was closed, the handle on %s is closed too", ips[first], ips[other]))
				} else if g == "" {
					problems = append(problems, "empty delivery")
				}
			default:
				problems = append(problems, fmt.Sprintf("after the connection of the ufrag on %s was closed, a client for the same ufrag on %s no longer reaches its (open) connection", ips[first], ips[other]))
			}
			done := make(chan struct{})
			go func() {
				_ = m.Close()
				close(done)
			}()
			synctest.Wait()
			select {
			case <-done:
			default:
				problems = append(problems, fmt.Sprintf("mux Close does not return after the connection on %s was closed while the one on %s is open", ips[first], ips[other]))
				_ = hs[other].Close() // let the bubble end
				synctest.Wait()
			}
			_ = c.Close()
		})
	}

	return problems, n
}

// ---------------------------------------------------------------- C15: mux Close racing a first frame and GetConnByUfrag

func init() {
	csScenarios["tcpmux-close-vs-firstframe"] = c15closeVsFirstFrame
}

// c15closeVsFirstFrame: a client's first frame arrives, the application asks for the ufrag's connection, and the mux
// is closed — all at once. Close returns; afterwards the listener, the stream and every handle are closed and
// GetConnByUfrag refuses.
func c15closeVsFirstFrame() zzmc.Scenario {
	return zzmc.Scenario{
		Name:     "tcpmux-close-vs-firstframe",
		Focus:    []string{"tcp_mux.go", "tcp_packet_conn.go", "shared_packet_conn.go"},
		MaxSteps: 3000,
		// a first frame that is routed after Close has swept the registry makes a provisional connection that only its
		// alive timer (30 s) ends, and Close waits for it: the clock may move when nothing else can
		TimeStep: time.Second,
		MaxAdv:   45,
		Setup: func(s *zzmc.Sched) func(string) (string, string) {
			lis := &fakeLis{ch: make(chan net.Conn), closed: make(chan struct{}), addr: &net.TCPAddr{IP: net.ParseIP("10.0.0.1").To4(), Port: 7001}}
			m := NewTCPMuxDefault(TCPMuxParams{Listener: lis, Logger: nopLogger{}, ReadBufferSize: 16})
			ip := net.ParseIP("10.0.0.1").To4()
			c, srv := newPipe(&net.TCPAddr{IP: net.ParseIP("192.0.2.9").To4(), Port: 40001}, lis.addr)
			wire, _, _ := c15first("u1")
			fail := ""
			closeReturned := false
			var h net.PacketConn
			var gerr error
			gotAfterClose := false
			s.Go("IN", func() {
				select {
				case lis.ch <- srv:
					_, _ = c.Write(wire)
				case <-lis.closed:
				}
			})
			s.Go("G", func() {
				after := closeReturned
				h, gerr = m.GetConnByUfrag("u1", false, ip)
				if after && gerr == nil {
					gotAfterClose = true
				}
			})
			s.Go("CL", func() {
				if err := m.Close(); err != nil {
					fail += "CLOSE-RETURNED-" + err.Error() + " "
				}
				closeReturned = true
			})

			return func(dead string) (string, string) {
				synctest.Wait()
				if !closeReturned {
					fail += "MUX-CLOSE-DID-NOT-RETURN "
					if h != nil {
						_ = h.Close() // let the bubble end
						synctest.Wait()
					}
				}
				if gotAfterClose {
					fail += "GETCONN-SUCCEEDED-AFTER-CLOSE-RETURNED "
				}
				if _, err := m.GetConnByUfrag("u1", false, ip); err == nil {
					fail += "GETCONN-SUCCEEDS-ON-A-CLOSED-MUX "
				}
				if h != nil {
					// what was queued before the mux closed may still be read; then the handle reports the end
					ended := make(chan struct{})
					go func() {
						defer close(ended)
						for i := 0; i < 3; i++ {
							if _, _, err := h.ReadFrom(make([]byte, 2000)); err != nil {
								return
							}
						}
					}()
					synctest.Wait()
					select {
					case <-ended:
					default:
						fail += "HANDLE-OF-A-CLOSED-MUX-IS-STILL-OPEN(a read blocks) "
					}
					_ = h.Close()
					synctest.Wait()
				}
				c.mu.Lock()
				accepted := srv.nclosed > 0 || c.eof
				c.mu.Unlock()
				_ = accepted
				_ = c.Close()

				return fmt.Sprintf("get=%v", gerr), fail
			}
		},
	}
}

// ---------------------------------------------------------------- C14 / C15: reads with a deadline never lose a queued packet

func init() {
	csScenarios["tcpconn-deadline-read"] = c14deadlineRead
}

// c14deadlineRead: one framed packet is queued on a TCP mux connection; the application reads through its handle with
// a read deadline that has already passed (three times: each read either returns the packet or times out), then
// without a deadline. The packet is delivered exactly once, whatever the select inside the read chooses.
func c14deadlineRead() zzmc.Scenario {
	return zzmc.Scenario{
		Name:     "tcpconn-deadline-read",
		Focus:    []string{"tcp_packet_conn.go", "shared_packet_conn.go"},
		MaxSteps: 2000,
		Setup: func(s *zzmc.Sched) func(string) (string, string) {
			lis := &fakeLis{ch: make(chan net.Conn), closed: make(chan struct{}), addr: &net.TCPAddr{IP: net.ParseIP("10.0.0.1").To4(), Port: 7001}}
			m := NewTCPMuxDefault(TCPMuxParams{Listener: lis, Logger: nopLogger{}, ReadBufferSize: 16})
			h, err := m.GetConnByUfrag("u1", false, net.ParseIP("10.0.0.1").To4())
			if err != nil {
				panic(err)
			}
			c, srv := newPipe(&net.TCPAddr{IP: net.ParseIP("192.0.2.9").To4(), Port: 40001}, lis.addr)
			wire, payload, _ := c15first("u1")
			s.Go("IN", func() { // the client connects and sends its one packet (it may be queued before, between or after the reads)
				lis.ch <- srv
				_, _ = c.Write(wire)
			})
			fail := ""
			got := 0
			finished := false
			s.Go("R", func() {
				buf := make([]byte, 2000)
				_ = h.SetReadDeadline(time.Now().Add(-time.Second))
				for i := 0; i < 3; i++ {
					if n, _, err := h.ReadFrom(buf); err == nil {
						got++
						if string(buf[:n]) != string(payload) {
							fail += "PACKET-CHANGED "
						}
					}
				}
				_ = h.SetReadDeadline(time.Time{})
				if got == 0 {
					if n, _, err := h.ReadFrom(buf); err == nil && string(buf[:n]) == string(payload) {
						got++
					}
				}
				finished = true
			})

			return func(dead string) (string, string) {
				if !finished {
					fail += "QUEUED-PACKET-LOST(the read without a deadline blocks: a timed-out read took it away) "
					_ = h.Close()
				}
				synctest.Wait()
				if got > 1 {
					fail += "PACKET-DELIVERED-TWICE "
				}
				_ = h.Close()
				_ = c.Close()
				_ = m.Close()

				return fmt.Sprintf("got=%d", got), fail
			}
		},
	}
}
