package ice

// Engine VT: explicit-state search over event histories applied to real objects inside
// testing/synctest bubbles. A state is identified by the history that reaches it; successors are
// computed by replaying the history on a fresh world and applying one more event. The coordinator
// (this process) deduplicates on the canonical key computed from the implementation's state and
// shards work over persistent worker processes (the same test binary, -test.run TestVerifWorker).

import (
	"bufio"
	"bytes"
	"crypto/sha256"
	"encoding/hex"
	"encoding/json"
	"fmt"
	"io"
	"os"
	"os/exec"
	"strconv"
	"strings"
	"sync"
	"testing"
	"testing/synctest"
	"time"
)

type vtProblem struct {
	Finding string `json:"finding,omitempty"`
	Msg     string `json:"msg"`
}

// vtModel is one closed system (agents + fake network + harness oracles), built inside a bubble.
type vtModel interface {
	Enabled() []string      // enabled events in canonical order (budget-aware)
	Apply(ev string)        // apply one event and run to quiescence
	Key() (string, []int)   // canonical state (from the implementation's state) and the budget vector spent
	Problems() []vtProblem  // oracle verdicts accumulated so far (invariants + transition oracles); drained
	Finish() []vtProblem    // end-of-history check from this state (fair suffix, ...); may consume the world
	Close()                 // tear down; every goroutine of the system must end without the clock advancing
}

type vtFactory func(cfg json.RawMessage) vtModel

var vtModels = map[string]vtFactory{} //nolint:gochecknoglobals

type vtJob struct {
	ID        int             `json:"id"`
	Model     string          `json:"model"`
	Cfg       json.RawMessage `json:"cfg"`
	Hist      []string        `json:"hist"`
	Finish    bool            `json:"finish"`
	Expand    bool            `json:"expand"`
	ParentKey string          `json:"parent_key,omitempty"`
}

type vtSucc struct {
	Ev       string      `json:"ev"`
	Key      string      `json:"key"`
	Spent    []int       `json:"spent,omitempty"`
	Problems []vtProblem `json:"problems,omitempty"`
}

type vtResult struct {
	ID             int         `json:"id"`
	Phase          string      `json:"phase,omitempty"` // progress marker (not a final result)
	Key            string      `json:"key"`
	Canon          string      `json:"canon,omitempty"`
	Spent          []int       `json:"spent,omitempty"`
	Enabled        []string    `json:"enabled"`
	Problems       []vtProblem `json:"problems,omitempty"`
	FinishProblems []vtProblem `json:"finish_problems,omitempty"`
	Succ           []vtSucc    `json:"succ,omitempty"`
	Err            string      `json:"err,omitempty"`
	Final          bool        `json:"final"`
	AuditRetries   int         `json:"audit_retries,omitempty"` // extra replays the determinism audit needed
}

func vtHash(s string) string {
	h := sha256.Sum256([]byte(s))

	return hex.EncodeToString(h[:12])
}

// vtExec builds the model in a fresh bubble, replays hist and calls f at the reached state.
func vtExec(t *testing.T, model string, cfg json.RawMessage, hist []string, f func(m vtModel)) {
	t.Helper()
	mk, ok := vtModels[model]
	if !ok {
		panic("unknown VT model " + model)
	}
	synctest.Test(t, func(t *testing.T) {
		m := mk(cfg)
		for i, ev := range hist {
			if i == len(hist)-1 {
				m.Problems() // verdicts on earlier events were reported when those prefixes were explored
			}
			m.Apply(ev)
		}
		f(m)
		m.Close()
		synctest.Wait()
	})
}

// vtRunJob executes one job in-process (used by the workers and by replay).
func vtRunJob(t *testing.T, job vtJob, progress func(phase string)) vtResult {
	t.Helper()
	res := vtResult{ID: job.ID, Final: true}
	progress("replay")
	// determinism audit: the replayed history must reach the state whose key was stored when it was first seen. The
	// goroutines inside one event run on the Go scheduler; where their order leaks into the state (it should not) the
	// replay is repeated, and only a history that never reproduces its stored key in three attempts is an engine error.
	firstKey := ""
	for attempt := 0; attempt < 3; attempt++ {
		res = vtResult{ID: job.ID, Final: true, AuditRetries: attempt}
		vtExec(t, job.Model, job.Cfg, job.Hist, func(m vtModel) {
			canon, spent := m.Key()
			res.Key, res.Spent = vtHash(canon), spent
			if len(job.Hist) < 3 || job.ID%97 == 0 {
				res.Canon = canon
			}
			res.Problems = m.Problems()
			res.Enabled = m.Enabled()
			if job.Finish {
				progress("finish")
				res.FinishProblems = m.Finish()
			}
		})
		if attempt == 0 {
			firstKey = res.Key
		}
		if job.ParentKey == "" || job.ParentKey == res.Key {
			break
		}
	}
	if job.ParentKey != "" && job.ParentKey != res.Key {
		res.Err = fmt.Sprintf("determinism audit: replaying %v gave key %s (three attempts), stored key %s", job.Hist, firstKey, job.ParentKey)

		return res
	}
	if !job.Expand {
		return res
	}
	for _, ev := range res.Enabled {
		progress("succ " + ev)
		h2 := append(append([]string{}, job.Hist...), ev)
		var sc vtSucc
		sc.Ev = ev
		vtExec(t, job.Model, job.Cfg, h2, func(m vtModel) {
			canon, spent := m.Key()
			sc.Key, sc.Spent = vtHash(canon), spent
			sc.Problems = m.Problems()
		})
		res.Succ = append(res.Succ, sc)
	}

	return res
}

// TestVerifWorker is the worker loop: JSON jobs on fd 3, JSON results (and progress markers) on fd 4.
func TestVerifWorker(t *testing.T) {
	if os.Getenv("VERIF_WORKER") == "" {
		t.Skip("not a worker")
	}
	in := bufio.NewReaderSize(os.NewFile(3, "jobs"), 1<<20)
	out := os.NewFile(4, "results")
	enc := json.NewEncoder(out)
	for {
		line, err := in.ReadBytes('\n')
		if err != nil {
			return
		}
		var job vtJob
		if err := json.Unmarshal(line, &job); err != nil {
			_ = enc.Encode(vtResult{Err: "bad job: " + err.Error(), Final: true})

			continue
		}
		res := vtRunJob(t, job, func(phase string) { _ = enc.Encode(vtResult{ID: job.ID, Phase: phase}) })
		_ = enc.Encode(res)
	}
}

// ---------------------------------------------------------------- worker pool

type vtWorker struct {
	cmd    *exec.Cmd
	in     io.WriteCloser
	out    *bufio.Reader
	stderr *bytes.Buffer
	jobs   int
}

type vtPool struct {
	n    int
	free chan *vtWorker
	mu   sync.Mutex
	id   int
}

func newVTPool() *vtPool {
	n, _ := strconv.Atoi(os.Getenv("VERIF_WORKERS"))
	if n <= 0 {
		n = 8
	}
	p := &vtPool{n: n, free: make(chan *vtWorker, n)}
	for i := 0; i < n; i++ {
		p.free <- nil // started lazily
	}

	return p
}

func (p *vtPool) spawn() (*vtWorker, error) {
	jr, jw, err := os.Pipe()
	if err != nil {
		return nil, err
	}
	rr, rw, err := os.Pipe()
	if err != nil {
		return nil, err
	}
	cmd := exec.Command(os.Args[0], childArgs("-test.run", "^TestVerifWorker$", "-test.timeout", "0")...) //nolint:gosec
	cmd.Env = append(os.Environ(), "VERIF_WORKER=1", "GOMAXPROCS=2", "VERIF_CHECK=")
	cmd.ExtraFiles = []*os.File{jr, rw}
	w := &vtWorker{cmd: cmd, in: jw, out: bufio.NewReaderSize(rr, 1<<20), stderr: &bytes.Buffer{}}
	cmd.Stderr = w.stderr
	cmd.Stdout = w.stderr
	if err := cmd.Start(); err != nil {
		return nil, err
	}
	_ = jr.Close()
	_ = rw.Close()

	return w, nil
}

func (w *vtWorker) kill() {
	_ = w.in.Close()
	if os.Getenv("VERIF_COVER") != "" { // coverage survey: let the worker leave by itself so that its counters are written
		done := make(chan struct{})
		go func() { _ = w.cmd.Wait(); close(done) }()
		select {
		case <-done:
			return
		case <-time.After(5 * time.Second):
		}
	}
	_ = w.cmd.Process.Kill()
	_ = w.cmd.Wait()
}

func (p *vtPool) close() {
	for i := 0; i < p.n; i++ {
		if w := <-p.free; w != nil {
			w.kill()
		}
	}
}

type vtDeath struct {
	phase  string
	stderr string
}

// do runs one job on a worker. If the worker dies (a deadlocked bubble kills the process) the job is
// retried in fresh workers; three deaths in a row at the same phase are reported as a death.
func (p *vtPool) do(job vtJob) (vtResult, *vtDeath, error) {
	p.mu.Lock()
	p.id++
	job.ID = p.id
	p.mu.Unlock()
	raw, _ := json.Marshal(job)
	raw = append(raw, '\n')
	var last *vtDeath
	for attempt := 0; attempt < 3; attempt++ {
		w := <-p.free
		if w != nil && w.jobs > 4000 {
			w.kill()
			w = nil
		}
		if w == nil {
			var err error
			if w, err = p.spawn(); err != nil {
				p.free <- nil

				return vtResult{}, nil, err
			}
		}
		w.jobs++
		phase := "send"
		var res vtResult
		ok := false
		if _, err := w.in.Write(raw); err == nil {
			for {
				line, err := w.out.ReadBytes('\n')
				if err != nil {
					break
				}
				var r vtResult
				if json.Unmarshal(line, &r) != nil {
					break
				}
				if r.Final {
					res, ok = r, true

					break
				}
				phase = r.Phase
			}
		}
		if ok {
			p.free <- w

			return res, nil, nil
		}
		w.kill()
		tail := w.stderr.String()
		if len(tail) > 6000 {
			tail = tail[:3000] + "\n...\n" + tail[len(tail)-3000:]
		}
		p.free <- nil
		d := &vtDeath{phase: phase, stderr: tail}
		if last != nil && last.phase != d.phase {
			return vtResult{}, nil, fmt.Errorf("worker died at different phases on retry (%q, %q): not reproducible\n%s", last.phase, d.phase, tail)
		}
		last = d
	}

	return vtResult{}, last, nil
}

// ---------------------------------------------------------------- search

type vtSpec struct {
	Name      string
	Model     string
	Cfg       any
	MaxDepth  int
	MaxStates int
	Finish    bool
	Deadline  time.Time
	// DeathFinding classifies an execution whose bubble could not end (worker death); may be nil
	DeathFinding func(hist []string, stderr string) string
}

type vtStats struct {
	States, Transitions, MaxDepth, FinishRuns, Pruned int
	AuditRetries                                      int
	Exhaustive                                        bool
}

func vtDominated(seen [][]int, spent []int) bool {
	for _, s := range seen {
		if len(s) != len(spent) {
			continue
		}
		le := true
		for i := range s {
			if s[i] > spent[i] {
				le = false

				break
			}
		}
		if le {
			return true
		}
	}

	return false
}

func vtDeathFinding(d *vtDeath) (string, string) {
	msg := "worker process died"
	for _, l := range strings.Split(d.stderr, "\n") {
		if strings.Contains(l, "deadlock:") || strings.HasPrefix(l, "panic:") || strings.HasPrefix(l, "fatal error:") {
			msg = strings.TrimSpace(l)

			break
		}
	}

	return "", msg
}

// vtSearch runs a level-synchronous BFS. classify maps a problem to a known-finding id (may be nil).
func vtSearch(c *runCtx, p *vtPool, s vtSpec) vtStats {
	// quick tier: no single search may use more than half of the budget that is left (at least 30 s): a search whose state
	// space a defect inflates must not starve the searches after it (seen with a seeded change in C01). On the unchanged
	// tree every search ends long before its share; a search that is cut reports it (exhaustive:false, caps_hit).
	if c.quick() && !s.Deadline.IsZero() {
		if left := time.Until(s.Deadline); left > 0 {
			share := left / 2
			if share < 30*time.Second {
				share = 30 * time.Second
			}
			if d := time.Now().Add(share); d.Before(s.Deadline) {
				s.Deadline = d
			}
		}
	}
	cfgRaw, _ := json.Marshal(s.Cfg)
	st := vtStats{Exhaustive: true}
	seen := map[string][][]int{}
	type node struct {
		hist []string
		key  string
	}
	report := func(hist []string, probs []vtProblem, where string) {
		for _, pr := range probs {
			c.violation(pr.Finding, fmt.Sprintf("[%s] %s %s", s.Name, where, pr.Msg),
				map[string]any{"engine": "vt", "model": s.Model, "cfg": json.RawMessage(cfgRaw), "hist": hist, "where": where})
		}
	}
	// initial state
	res, death, err := p.do(vtJob{Model: s.Model, Cfg: cfgRaw})
	if err != nil || death != nil || res.Err != "" {
		c.engineError("[%s] initial state: err=%v death=%v res.Err=%s", s.Name, err, death, res.Err)
		st.Exhaustive = false

		return st
	}
	report(nil, res.Problems, "initial state:")
	seen[res.Key] = [][]int{res.Spent}
	st.States = 1
	if res.Canon != "" {
		c.sample(map[string]any{"search": s.Name, "history": []string{}, "state": res.Canon})
	}
	frontier := []node{{nil, res.Key}}
	for depth := 0; len(frontier) > 0; depth++ {
		if s.MaxDepth > 0 && depth >= s.MaxDepth {
			// states at the depth cap still get their invariant/finish checks
			s2 := s
			_ = s2
		}
		type out struct {
			n     node
			res   vtResult
			death *vtDeath
			err   error
		}
		outs := make([]out, len(frontier))
		var wg sync.WaitGroup
		sem := make(chan struct{}, p.n)
		expand := !(s.MaxDepth > 0 && depth >= s.MaxDepth)
		for i, n := range frontier {
			if !s.Deadline.IsZero() && time.Now().After(s.Deadline) {
				c.capHit(fmt.Sprintf("[%s] deadline reached at depth %d (%d of %d frontier states expanded)", s.Name, depth, i, len(frontier)))
				st.Exhaustive = false
				frontier = frontier[:i]
				outs = outs[:i]

				break
			}
			wg.Add(1)
			sem <- struct{}{}
			go func(i int, n node) {
				defer wg.Done()
				defer func() { <-sem }()
				r, d, e := p.do(vtJob{Model: s.Model, Cfg: cfgRaw, Hist: n.hist, Finish: s.Finish, Expand: expand, ParentKey: n.key})
				outs[i] = out{n, r, d, e}
			}(i, n)
		}
		wg.Wait()
		var next []node
		for _, o := range outs {
			if o.err != nil {
				c.engineError("[%s] %v", s.Name, o.err)
				st.Exhaustive = false

				continue
			}
			if o.death != nil {
				finding, msg := vtDeathFinding(o.death)
				if s.DeathFinding != nil {
					finding = s.DeathFinding(append(append([]string{}, o.n.hist...), strings.TrimPrefix(o.death.phase, "succ ")), o.death.stderr)
				}
				c.violation(finding, fmt.Sprintf("[%s] history %v, phase %q: %s", s.Name, o.n.hist, o.death.phase, msg),
					map[string]any{"engine": "vt", "model": s.Model, "cfg": json.RawMessage(cfgRaw), "hist": o.n.hist, "phase": o.death.phase, "stderr": o.death.stderr})

				continue
			}
			if o.res.Err != "" {
				c.engineError("[%s] %s", s.Name, o.res.Err)
				st.Exhaustive = false

				continue
			}
			st.AuditRetries += o.res.AuditRetries
			if len(o.n.hist) > st.MaxDepth {
				st.MaxDepth = len(o.n.hist)
			}
			if s.Finish {
				st.FinishRuns++
				report(o.n.hist, o.res.FinishProblems, "fair completion from this state:")
			}
			if o.res.Canon != "" && len(o.n.hist) > 0 {
				c.sample(map[string]any{"search": s.Name, "history": o.n.hist, "state": o.res.Canon})
			}
			if !expand && len(o.res.Enabled) > 0 {
				st.Exhaustive = false
			}
			for _, sc := range o.res.Succ {
				st.Transitions++
				h2 := append(append([]string{}, o.n.hist...), sc.Ev)
				report(h2, sc.Problems, "after the last event:")
				if vtDominated(seen[sc.Key], sc.Spent) {
					st.Pruned++

					continue
				}
				if _, known := seen[sc.Key]; !known {
					st.States++
				}
				seen[sc.Key] = append(seen[sc.Key], sc.Spent)
				next = append(next, node{h2, sc.Key})
			}
		}
		if !expand && len(next) == 0 && !st.Exhaustive {
			c.capHit(fmt.Sprintf("[%s] depth cap %d reached with enabled events left", s.Name, s.MaxDepth))
		}
		if c.violationCount() > 300 {
			c.capHit(fmt.Sprintf("[%s] search stopped at depth %d after more than 300 violating cases", s.Name, depth))
			st.Exhaustive = false

			break
		}
		if s.MaxStates > 0 && st.States > s.MaxStates {
			c.capHit(fmt.Sprintf("[%s] state cap %d reached at depth %d", s.Name, s.MaxStates, depth))
			st.Exhaustive = false

			break
		}
		frontier = next
	}
	c.add("states", st.States)
	c.add("transitions", st.Transitions)
	c.add("traces_validated_against_impl", st.Transitions+st.FinishRuns+1)
	c.mu.Lock()
	searches, _ := c.cov["searches"].([]any)
	c.cov["searches"] = append(searches, map[string]any{"name": s.Name, "states": st.States, "transitions": st.Transitions, "max_depth": st.MaxDepth,
		"fair_completions": st.FinishRuns, "pruned_revisits": st.Pruned, "exhaustive": st.Exhaustive, "determinism_audit_retries": st.AuditRetries})
	if !st.Exhaustive {
		c.exhaustive = false
	}
	c.mu.Unlock()

	return st
}

// vtReplay is the generic replayer for VT replay files.
func vtReplay(c *runCtx, raw json.RawMessage) string {
	var doc struct {
		Model string          `json:"model"`
		Cfg   json.RawMessage `json:"cfg"`
		Hist  []string        `json:"hist"`
		Where string          `json:"where"`
	}
	if err := json.Unmarshal(raw, &doc); err != nil {
		return "bad replay file: " + err.Error()
	}
	res := vtRunJob(c.t, vtJob{Model: doc.Model, Cfg: doc.Cfg, Hist: doc.Hist, Finish: strings.HasPrefix(doc.Where, "fair")}, func(string) {})
	var out []string
	for _, p := range append(res.Problems, res.FinishProblems...) {
		out = append(out, p.Msg)
	}

	return strings.Join(out, " | ")
}
