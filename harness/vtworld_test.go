package ice

// The closed system used by the protocol-level VT checks: two real Agents, fake sockets, and a
// harness-owned network (multiset of in-flight datagrams, NAT mappings, reachability relation).

import (
	"context"
	"encoding/json"
	"fmt"
	"io"
	"net"
	"os"
	"sort"
	"strconv"
	"strings"
	"sync"
	"testing/synctest"
	"time"

	"github.com/pion/ice/v4/internal/zzmc"
	"github.com/pion/stun/v3"
	"github.com/pion/transport/v4"
)

// ---------------------------------------------------------------- sockets and network

type dgram struct {
	seq     int
	srcSock string // name of the sending socket ("a0", "b1", "x")
	src     string // source address as seen on the wire (after NAT)
	dst     string // destination address on the wire
	data    []byte
}

type rxPacket struct {
	src  string
	data []byte
}

type vsock struct {
	w         *world
	name      string
	addr      *net.UDPAddr
	in        chan rxPacket
	closed    chan struct{}
	once      sync.Once
	closes    int
	blockW    bool // WriteTo blocks until the socket is closed or a write deadline in the past is set
	wdl       chan struct{}
	mu        sync.Mutex
	readDL    time.Time
	rdlChange chan struct{}
}

func (c *vsock) ReadFrom(b []byte) (int, net.Addr, error) {
	for {
		c.mu.Lock()
		dl := c.readDL
		ch := c.rdlChange
		c.mu.Unlock()
		var timer <-chan time.Time
		if !dl.IsZero() {
			d := time.Until(dl)
			if d <= 0 {
				select {
				case <-c.closed:
					return 0, nil, net.ErrClosed
				default:
				}

				return 0, nil, os.ErrDeadlineExceeded
			}
			t := time.NewTimer(d)
			defer t.Stop()
			timer = t.C
		}
		select { // a closed socket yields nothing more, whatever is queued (select would otherwise choose at random)
		case <-c.closed:
			return 0, nil, net.ErrClosed
		default:
		}
		select {
		case p := <-c.in:
			select {
			case <-c.closed:
				return 0, nil, net.ErrClosed
			default:
			}
			a, _ := net.ResolveUDPAddr("udp", p.src)

			return copy(b, p.data), a, nil
		case <-c.closed:
			return 0, nil, net.ErrClosed
		case <-timer:
			return 0, nil, os.ErrDeadlineExceeded
		case <-ch:
		}
	}
}

func (c *vsock) WriteTo(b []byte, a net.Addr) (int, error) {
	select {
	case <-c.closed:
		return 0, io.ErrClosedPipe
	default:
	}
	if c.blockW {
		select {
		case <-c.closed:
			return 0, io.ErrClosedPipe
		case <-c.wdl:
			return 0, os.ErrDeadlineExceeded
		}
	}
	c.w.send(c, a.String(), b)

	return len(b), nil
}

func (c *vsock) Close() error {
	c.mu.Lock()
	c.closes++
	c.mu.Unlock()
	c.once.Do(func() { close(c.closed) })

	return nil
}
func (c *vsock) LocalAddr() net.Addr { return c.addr }
func (c *vsock) SetDeadline(t time.Time) error {
	_ = c.SetReadDeadline(t)

	return c.SetWriteDeadline(t)
}

func (c *vsock) SetReadDeadline(t time.Time) error {
	c.mu.Lock()
	c.readDL = t
	old := c.rdlChange
	c.rdlChange = make(chan struct{})
	c.mu.Unlock()
	close(old)

	return nil
}

func (c *vsock) SetWriteDeadline(t time.Time) error {
	if c.blockW && !t.IsZero() && !t.After(time.Now()) {
		c.mu.Lock()
		select {
		case <-c.wdl:
		default:
			close(c.wdl)
		}
		c.mu.Unlock()
	}

	return nil
}

func (c *vsock) isClosed() bool {
	select {
	case <-c.closed:
		return true
	default:
		return false
	}
}

// settle waits until every goroutine of the bubble is durably blocked. Under the CS scheduler (which owns
// synctest.Wait) a harness thread gets the same effect by sleeping on the virtual clock: it only advances
// once nothing else can move (the scenario must set TimeStep).
func settle() {
	if zzmc.Active() {
		time.Sleep(time.Millisecond)

		return
	}
	synctest.Wait()
}

type world struct {
	mu        sync.Mutex
	socks     map[string]*vsock // by name
	byPublic  map[string]*vsock // wire address -> socket
	natExt    map[string]string // socket name -> external address (if behind a NAT)
	blocked   map[string]bool   // "a0>b1": datagrams from socket a0 never reach socket b1
	inflight  []dgram
	nextSeq   int
	blackhole int
	sentLog   []dgram // everything ever sent (also black-holed), for oracles
	onSend    func(s *vsock, d dgram)
	lose      func(s *vsock, d dgram) bool // the network loses this datagram on its own (a loss that is not an event)
	onDeliver func(dst *vsock, src string, data []byte)
}

func newWorld() *world {
	return &world{socks: map[string]*vsock{}, byPublic: map[string]*vsock{}, natExt: map[string]string{}, blocked: map[string]bool{}}
}

func (w *world) newSock(name, ip string, port int, natExt string) *vsock {
	s := &vsock{w: w, name: name, addr: &net.UDPAddr{IP: net.ParseIP(ip), Port: port}, in: make(chan rxPacket, 4096),
		closed: make(chan struct{}), wdl: make(chan struct{}), rdlChange: make(chan struct{})}
	w.mu.Lock() // gatherer goroutines open sockets while others send
	defer w.mu.Unlock()
	w.socks[name] = s
	if natExt != "" {
		w.natExt[name] = natExt
		w.byPublic[natExt] = s
	} else {
		w.byPublic[s.addr.String()] = s
	}

	return s
}

// wireAddr is the address the rest of the world sees for a socket.
func (w *world) wireAddr(s *vsock) string {
	if e, ok := w.natExt[s.name]; ok {
		return e
	}

	return s.addr.String()
}

func (w *world) routable(srcSock, dst string) *vsock {
	d, ok := w.byPublic[dst]
	if !ok || w.blocked[srcSock+">"+d.name] || d.isClosed() {
		return nil
	}

	return d
}

func (w *world) send(s *vsock, dst string, b []byte) {
	w.mu.Lock()
	defer w.mu.Unlock()
	d := dgram{seq: w.nextSeq, srcSock: s.name, src: w.wireAddr(s), dst: dst, data: append([]byte{}, b...)}
	w.nextSeq++
	w.sentLog = append(w.sentLog, d)
	if w.onSend != nil {
		w.onSend(s, d)
	}
	if w.routable(s.name, dst) == nil || (w.lose != nil && w.lose(s, d)) {
		w.blackhole++ // can never have an effect on anyone: not kept in flight

		return
	}
	w.inflight = append(w.inflight, d)
}

func (w *world) find(seq int) int {
	for i, d := range w.inflight {
		if d.seq == seq {
			return i
		}
	}

	return -1
}

// deliver hands datagram seq to its destination socket (remove=false duplicates it).
func (w *world) deliver(seq int, remove, drop bool) bool {
	w.mu.Lock()
	i := w.find(seq)
	if i < 0 {
		w.mu.Unlock()

		return false
	}
	d := w.inflight[i]
	if remove {
		w.inflight = append(w.inflight[:i:i], w.inflight[i+1:]...)
	}
	dst := w.routable(d.srcSock, d.dst)
	w.mu.Unlock()
	if !drop && dst != nil {
		if w.onDeliver != nil {
			w.onDeliver(dst, d.src, d.data)
		}
		dst.in <- rxPacket{d.src, d.data}
	}
	settle()

	return true
}

// inject delivers a harness-made datagram (not part of the in-flight set).
func (w *world) inject(to *vsock, src string, data []byte) {
	if w.onDeliver != nil {
		w.onDeliver(to, src, data)
	}
	to.in <- rxPacket{src, append([]byte{}, data...)}
	settle()
}

type vNet struct{ transport.Net } // any other use by the agent panics: these worlds never gather

func (vNet) Interfaces() ([]*transport.Interface, error) { return nil, nil }

// ---------------------------------------------------------------- datagram description

type stunInfo struct {
	isSTUN bool
	class  string
	method string
	uc     bool
	nom    int
	role   string
	tie    uint64
	prio   int64
	user   string
	tx     [stun.TransactionIDSize]byte
	code   int
}

func describeSTUN(data []byte) stunInfo {
	var si stunInfo
	if !stun.IsMessage(data) {
		return si
	}
	m := &stun.Message{Raw: append([]byte{}, data...)}
	if m.Decode() != nil {
		return si
	}
	si.isSTUN = true
	si.class, si.method = m.Type.Class.String(), m.Type.Method.String()
	si.uc = m.Contains(stun.AttrUseCandidate)
	si.nom = -1
	var nom NominationAttribute
	if nom.GetFrom(m) == nil {
		si.nom = int(nom.Value)
	}
	var ac AttrControl
	if ac.GetFrom(m) == nil {
		si.role, si.tie = ac.Role.String(), ac.Tiebreaker
	}
	si.prio = -1
	var p PriorityAttr
	if p.GetFrom(m) == nil {
		si.prio = int64(p)
	}
	var u stun.Username
	if u.GetFrom(m) == nil {
		si.user = u.String()
	}
	var ec stun.ErrorCodeAttribute
	if ec.GetFrom(m) == nil {
		si.code = int(ec.Code)
	}
	si.tx = m.TransactionID

	return si
}

func (d dgram) describe() string {
	si := describeSTUN(d.data)
	if !si.isSTUN {
		return fmt.Sprintf("%s>%s data[%d]", d.src, d.dst, len(d.data))
	}

	return fmt.Sprintf("%s>%s %s %s uc=%v nom=%d role=%s prio=%d user=%s code=%d", d.src, d.dst, si.method, si.class, si.uc, si.nom, si.role, si.prio, si.user, si.code)
}

// ---------------------------------------------------------------- two-agent configuration

// Candidate kinds: "host" (public address), "nat" (host candidate on a private address behind a cone
// NAT; only the private address is signalled, so the peer has to discover a peer-reflexive candidate),
// "srflx" (server-reflexive candidate on its own socket behind a cone NAT, the external address is signalled).
type pairCfg struct {
	KindsA     []string `json:"kinds_a"`
	KindsB     []string `json:"kinds_b"`
	Blocked    []string `json:"blocked,omitempty"` // directed socket links that never deliver, e.g. "b0>a0"
	RoleA      string   `json:"role_a,omitempty"`  // "controlling" (default) | "controlled"
	RoleB      string   `json:"role_b,omitempty"`  // "controlled" (default) | "controlling"
	TieA       uint64   `json:"tie_a,omitempty"`
	TieB       uint64   `json:"tie_b,omitempty"`
	LiteB      bool     `json:"lite_b,omitempty"`
	Renom      bool     `json:"renom,omitempty"`
	NomValues  []uint32 `json:"nom_values,omitempty"`  // first values of each agent's nomination value generator
	HoldSignal []string `json:"hold_signal,omitempty"` // "i:j": candidate j of side i is not signalled up front; it reaches the peer by the event signal:i:j
	LoseA      int      `json:"lose_a,omitempty"`      // the first LoseA Binding requests A sends are lost (a loss prefix as long as the retry budget)
	LoseB      int      `json:"lose_b,omitempty"`
	Ticks      int      `json:"ticks"` // per agent
	Drops      int      `json:"drops"`
	Dups       int      `json:"dups"`
	Restarts   int      `json:"restarts,omitempty"`
	FairMax    int      `json:"fair_max,omitempty"` // rounds of the fair suffix
	Trickle    bool     `json:"trickle,omitempty"`  // remote candidates are signalled by events instead of up front
	Dev        int      `json:"dev,omitempty"`      // >0: deviation-bounded mode with this many deviations
	PrioA      []uint32 `json:"prio_a,omitempty"`
	PrioB      []uint32 `json:"prio_b,omitempty"`
	Monitor    bool     `json:"monitor,omitempty"` // evaluate the C03 selection ledger after every event
	Waits      int      `json:"waits,omitempty"`    // >0: the agents keep the default acceptance waits (srflx 500 ms, prflx 1 s, relay 2 s) and "the clock advances by 600 ms" is an event (at most this often)
	ReadBuf    int      `json:"read_buf,omitempty"` // (data model) size of the application's read buffer; 0 = larger than any datagram
}

const (
	vUfragA, vPwdA = "ufragAAAA", "pwdAAAAAAAAAAAAAAAAAAAAAAAAA"
	vUfragB, vPwdB = "ufragBBBB", "pwdBBBBBBBBBBBBBBBBBBBBBBBBB"
)

type sideState struct {
	agent    *Agent
	name     string // "A" / "B"
	idx      int
	socks    []*vsock
	cands    []Candidate // local candidates (as created)
	signal   []string    // marshalled candidates to signal to the peer
	sigDone  []bool      // trickle: candidate j has been handed to the peer
	genVals  []uint32    // what the application's nomination value generator has returned so far
	ufrag    string
	pwd      string
	gen      int
	states   []ConnectionState
	selLog   []string
	candLog  []string
	conn     *Conn
	contact  func()
	ticks    int
	restarts int
}

type pairWorld struct {
	*world
	cfg      pairCfg
	side     [2]*sideState
	drops    int
	dups     int
	waits    int // "wait" events applied (clock advanced by 600 ms each)
	devs     int
	problems []vtProblem
	contacts map[*Agent]func()
	// restart exchange in progress: 0 none, 1 offer under way, 2 answer under way; initiator; exchanges started
	exch, exchInit, exchanges int
	lost                      [2]int // Binding requests lost under LoseA / LoseB
	cmu                       sync.Mutex
	ledgers                   [2]*ledger
	monitor                   bool // evaluate the C03 selection oracle after every event
}

func sideAddr(side, i int, kind string) (ip string, port int, ext string) {
	port = 1000*(side+1) + i
	switch kind {
	case "nat", "srflx":
		return fmt.Sprintf("192.168.%d.%d", side, i+1), port, fmt.Sprintf("203.0.%d.%d:%d", 113+side, i+1, 4000+port)
	default:
		return fmt.Sprintf("10.0.%d.%d", side, i+1), port, ""
	}
}

func (pw *pairWorld) problem(finding, format string, args ...any) {
	pw.problems = append(pw.problems, vtProblem{finding, fmt.Sprintf(format, args...)})
}

func (pw *pairWorld) newAgent(s *sideState, lite bool) {
	opts := []AgentOption{
		WithNet(vNet{}),
		WithMulticastDNSMode(MulticastDNSModeDisabled),
		WithNetworkTypes([]NetworkType{NetworkTypeUDP4}),
		WithCandidateTypes([]CandidateType{CandidateTypeHost}),
		WithLocalCredentials(s.ufrag, s.pwd),
		WithLoggerFactory(nopFactory{}),
	}
	if pw.cfg.Waits == 0 {
		opts = append(opts, WithHostAcceptanceMinWait(0), WithSrflxAcceptanceMinWait(0), WithPrflxAcceptanceMinWait(0), WithRelayAcceptanceMinWait(0))
	}
	if lite {
		opts = append(opts, WithICELite(true))
	}
	if pw.cfg.Renom {
		ctr, seq := uint32(0), append([]uint32{}, pw.cfg.NomValues...)
		opts = append(opts, WithRenomination(func() uint32 {
			if len(seq) > 0 { // an application-supplied generator need not be monotonic
				v := seq[0]
				seq = seq[1:]
				if v > ctr {
					ctr = v
				}
				s.genVals = append(s.genVals, v)

				return v
			}
			ctr++
			s.genVals = append(s.genVals, ctr)

			return ctr
		}))
	}
	a, err := NewAgentWithOptions(opts...)
	if err != nil {
		panic(err)
	}
	s.agent = a
	st := s
	_ = a.OnConnectionStateChange(func(cs ConnectionState) { st.states = append(st.states, cs) })
	_ = a.OnSelectedCandidatePairChange(func(l, r Candidate) {
		st.selLog = append(st.selLog, l.addr().String()+">"+r.addr().String())
	})
	_ = a.OnCandidate(func(c Candidate) {
		if c == nil {
			st.candLog = append(st.candLog, "nil")
		} else {
			st.candLog = append(st.candLog, c.Marshal())
		}
	})
}

// addLocals creates the side's sockets and local candidates for the current generation.
func (pw *pairWorld) addLocals(s *sideState, kinds []string, prios []uint32) {
	s.socks, s.cands, s.signal, s.sigDone = nil, nil, nil, nil
	for i, kind := range kinds {
		ip, port, ext := sideAddr(s.idx, i, kind)
		port += 100 * s.gen // fresh sockets per generation
		if ext != "" {
			h, p, _ := net.SplitHostPort(ext)
			pi, _ := strconv.Atoi(p)
			ext = net.JoinHostPort(h, strconv.Itoa(pi+100*s.gen))
		}
		name := fmt.Sprintf("%s%d", strings.ToLower(s.name), i)
		if s.gen > 0 {
			name = fmt.Sprintf("%s.g%d", name, s.gen)
		}
		sock := pw.newSock(name, ip, port, ext)
		var prio uint32
		if i < len(prios) {
			prio = prios[i]
		}
		var c Candidate
		var err error
		switch kind {
		case "srflx":
			eh, ep, _ := net.SplitHostPort(ext)
			epi, _ := strconv.Atoi(ep)
			c, err = NewCandidateServerReflexive(&CandidateServerReflexiveConfig{Network: "udp", Address: eh, Port: epi, Component: 1, RelAddr: ip, RelPort: port, Priority: prio})
		default:
			c, err = NewCandidateHost(&CandidateHostConfig{Network: "udp", Address: ip, Port: port, Component: 1, Priority: prio})
		}
		if err != nil {
			panic(err)
		}
		if err := s.agent.addCandidate(context.Background(), c, sock); err != nil {
			panic(err)
		}
		s.socks = append(s.socks, sock)
		s.cands = append(s.cands, c)
		s.signal = append(s.signal, c.Marshal())
	}
}

func (pw *pairWorld) signalAll(from, to *sideState) {
	for j := range from.signal {
		pw.signalOne(from, to, j)
	}
}

// signalOne hands candidate j of from to the peer (once).
func (pw *pairWorld) signalOne(from, to *sideState, j int) {
	for len(from.sigDone) < len(from.signal) {
		from.sigDone = append(from.sigDone, false)
	}
	if from.sigDone[j] {
		return
	}
	from.sigDone[j] = true
	c, err := UnmarshalCandidate(from.signal[j])
	if err != nil {
		panic(err)
	}
	_ = to.agent.AddRemoteCandidate(c)
	settle()
}

// unsignalled lists the trickle events still open: "signal:i:j" = candidate j of side i reaches the peer.
// B's candidates come first in the default order (then A can start checking before B knows A's addresses).
func (pw *pairWorld) unsignalled() []string {
	var evs []string
	for _, i := range []int{1, 0} {
		s := pw.side[i]
		for j := range s.signal {
			if j >= len(s.sigDone) || !s.sigDone[j] {
				evs = append(evs, fmt.Sprintf("signal:%d:%d", i, j))
			}
		}
	}

	return evs
}

func newPairWorld(raw json.RawMessage) *pairWorld {
	pw := &pairWorld{world: newWorld(), contacts: map[*Agent]func(){}}
	if err := json.Unmarshal(raw, &pw.cfg); err != nil {
		panic(err)
	}
	pw.ledgers = [2]*ledger{newLedger(), newLedger()}
	pw.onSend = pw.ledgerSend
	pw.lose = func(s *vsock, d dgram) bool {
		i := pw.sideOfSock(s)
		if i < 0 {
			return false
		}
		budget := pw.cfg.LoseA
		if i == 1 {
			budget = pw.cfg.LoseB
		}
		if si := describeSTUN(d.data); pw.lost[i] < budget && si.isSTUN && si.class == "request" {
			pw.lost[i]++

			return true
		}

		return false
	}
	pw.onDeliver = pw.ledgerDeliver
	cfg := pw.cfg
	for _, b := range cfg.Blocked {
		pw.blocked[b] = true
	}
	VerifTakeContact = func(a *Agent, f func()) bool {
		pw.cmu.Lock()
		pw.contacts[a] = f
		pw.cmu.Unlock()

		return true
	}
	pw.side[0] = &sideState{name: "A", idx: 0, ufrag: vUfragA, pwd: vPwdA}
	pw.side[1] = &sideState{name: "B", idx: 1, ufrag: vUfragB, pwd: vPwdB}
	pw.newAgent(pw.side[0], false)
	pw.newAgent(pw.side[1], cfg.LiteB)
	pw.addLocals(pw.side[0], cfg.KindsA, cfg.PrioA)
	pw.addLocals(pw.side[1], cfg.KindsB, cfg.PrioB)
	if !cfg.Trickle {
		held := func(i, j int) bool {
			for _, h := range cfg.HoldSignal {
				if h == fmt.Sprintf("%d:%d", i, j) {
					return true
				}
			}

			return false
		}
		for _, dir := range [][2]*sideState{{pw.side[1], pw.side[0]}, {pw.side[0], pw.side[1]}} {
			for j := range dir[0].signal {
				if !held(dir[0].idx, j) {
					pw.signalOne(dir[0], dir[1], j)
				}
			}
		}
	}
	settle()
	pw.start(pw.side[0], pw.side[1], cfg.RoleA != "controlled", cfg.TieA)
	pw.start(pw.side[1], pw.side[0], cfg.RoleB == "controlling", cfg.TieB)
	settle()

	return pw
}

func (pw *pairWorld) start(s, peer *sideState, controlling bool, tie uint64) {
	if tie != 0 {
		s.agent.tieBreaker = tie
	}
	var err error
	if controlling {
		s.conn, err = s.agent.StartDial(peer.ufrag, peer.pwd)
	} else {
		s.conn, err = s.agent.StartAccept(peer.ufrag, peer.pwd)
	}
	if err != nil {
		panic(err)
	}
	settle()
	pw.cmu.Lock()
	s.contact = pw.contacts[s.agent]
	pw.cmu.Unlock()
	if s.contact == nil {
		panic("hook H1 did not hand over the contact closure (build without -tags verif?)")
	}
}

func (pw *pairWorld) tick(i int) {
	pw.side[i].ticks++
	pw.side[i].contact()
	settle()
}

func (pw *pairWorld) Close() {
	for _, s := range pw.side {
		if err := s.agent.Close(); err != nil {
			pw.problem("", "Close returned %v", err)
		}
	}
	settle()
}

// ---------------------------------------------------------------- canonical key

type txInfo struct {
	pend []string
	msgs []string
}

func agentCanon(sb *strings.Builder, ai int, a *Agent, infos map[[stun.TransactionIDSize]byte]*txInfo) {
	get := func(id [stun.TransactionIDSize]byte) *txInfo {
		if infos[id] == nil {
			infos[id] = &txInfo{}
		}

		return infos[id]
	}
	_ = a.loop.Run(a.loop, func(context.Context) {
		fmt.Fprintf(sb, "A%d st=%s ctl=%v uf=%s/%s ", ai, a.connectionState, a.isControlling.Load(), a.localUfrag, a.remoteUfrag)
		if sp := a.getSelectedPair(); sp != nil {
			fmt.Fprintf(sb, "sel=%s>%s ", sp.Local.addr(), sp.Remote.addr())
		}
		sel := a.getSelector()
		if ls, ok := sel.(*liteSelector); ok {
			sb.WriteString("lite ")
			sel = ls.pairCandidateSelector
		}
		switch s := sel.(type) {
		case *controllingSelector:
			if s.nominatedPair != nil {
				fmt.Fprintf(sb, "nomp=%s>%s ", s.nominatedPair.Local.addr(), s.nominatedPair.Remote.addr())
			}
		case *controlledSelector:
			if s.lastNomination != nil {
				fmt.Fprintf(sb, "lastnom=%d ", *s.lastNomination)
			}
		}
		var ps []string
		for _, p := range a.checklist {
			cnt := p.bindingRequestCount
			if cnt > a.maxBindingRequests+1 {
				cnt = a.maxBindingRequests + 1
			}
			dv := -1
			if p.deferredNominationValue != nil {
				dv = int(*p.deferredNominationValue)
			}
			ps = append(ps, fmt.Sprintf("[%s>%s/%s %s n=%v d=%v/%d c=%d o=%v]", p.Local.addr(), p.Remote.addr(), p.Remote.Type(), p.state, p.nominated, p.nominateOnBindingSuccess, dv, cnt, p.hasPriorityOverride))
		}
		sort.Strings(ps)
		sb.WriteString(strings.Join(ps, ""))
		var rs []string
		for _, set := range a.remoteCandidates {
			for _, c := range set {
				rs = append(rs, fmt.Sprintf("%s/%s/%d", c.Type(), c.addr(), c.Priority()))
			}
		}
		sort.Strings(rs)
		sb.WriteString(" R=" + strings.Join(rs, ","))
		var ls []string
		for _, set := range a.localCandidates {
			for _, c := range set {
				// the per-candidate cache of validated source addresses is implementation state too
				var cache []string
				if cb := candidateBaseOf(c); cb != nil {
					cb.remoteCandidateCaches.Range(func(k, v any) bool {
						to := "?"
						if rc, ok := v.(Candidate); ok {
							to = rc.Type().String() + "/" + rc.addr().String()
						}
						cache = append(cache, fmt.Sprint(k)+"="+to)

						return true
					})
				}
				sort.Strings(cache)
				ls = append(ls, fmt.Sprintf("%s/%s%v", c.Type(), c.addr(), cache))
			}
		}
		sort.Strings(ls)
		sb.WriteString(" L=" + strings.Join(ls, ","))
		fmt.Fprintf(sb, " lrv=%d", a.latestRenominationValue)
		for _, pr := range a.pendingBindingRequests {
			nv := -1
			if pr.nominationValue != nil {
				nv = int(*pr.nominationValue)
			}
			ti := get(pr.transactionID)
			ti.pend = append(ti.pend, fmt.Sprintf("P%d>%s uc=%v nom=%d", ai, pr.destination, pr.isUseCandidate, nv))
		}
	})
	sb.WriteString(" | ")
}

// canon renders the world canonically. Transaction ids are random; the code only ever compares them
// for equality, so each id is replaced by the sorted description of everything that mentions it.
func (pw *pairWorld) canon() string {
	infos := map[[stun.TransactionIDSize]byte]*txInfo{}
	var sb strings.Builder
	for ai, s := range pw.side {
		agentCanon(&sb, ai, s.agent, infos)
	}
	var plain []string
	for _, d := range pw.inflight {
		si := describeSTUN(d.data)
		if !si.isSTUN {
			plain = append(plain, d.describe())

			continue
		}
		if infos[si.tx] == nil {
			infos[si.tx] = &txInfo{}
		}
		infos[si.tx].msgs = append(infos[si.tx].msgs, d.describe())
	}
	var sigs []string
	for _, ti := range infos {
		sort.Strings(ti.pend)
		sort.Strings(ti.msgs)
		sigs = append(sigs, "{"+strings.Join(ti.pend, ";")+"#"+strings.Join(ti.msgs, ";")+"}")
	}
	sort.Strings(sigs)
	sort.Strings(plain)
	sb.WriteString(strings.Join(sigs, ""))
	sb.WriteString(strings.Join(plain, ";"))

	return sb.String()
}

// ---------------------------------------------------------------- events shared by the two-agent models

func (pw *pairWorld) netEvents() []string {
	var evs []string
	for _, d := range pw.inflight {
		evs = append(evs, fmt.Sprintf("deliver:%d", d.seq))
		if pw.drops < pw.cfg.Drops {
			evs = append(evs, fmt.Sprintf("drop:%d", d.seq))
		}
		if pw.dups < pw.cfg.Dups {
			evs = append(evs, fmt.Sprintf("dup:%d", d.seq))
		}
	}

	return evs
}

func (pw *pairWorld) tickEvents() []string {
	var evs []string
	for i, s := range pw.side {
		if s.ticks < pw.cfg.Ticks {
			evs = append(evs, fmt.Sprintf("tick:%d", i))
		}
	}

	return evs
}

func (pw *pairWorld) applyBasic(ev string) bool {
	kind, arg, _ := strings.Cut(ev, ":")
	n, _ := strconv.Atoi(arg)
	switch kind {
	case "tick":
		pw.tick(n)
	case "deliver":
		if !pw.deliver(n, true, false) {
			panic("replay divergence: datagram " + arg + " is not in flight")
		}
	case "drop":
		pw.drops++
		if !pw.deliver(n, true, true) {
			panic("replay divergence: datagram " + arg + " is not in flight")
		}
	case "dup":
		pw.dups++
		if !pw.deliver(n, false, false) {
			panic("replay divergence: datagram " + arg + " is not in flight")
		}
	default:
		return false
	}

	return true
}

// fairSuffix: deliver everything FIFO, tick A, tick B, repeat — deterministic and loss-free.
func (pw *pairWorld) fairSuffix(rounds int, done func() bool) {
	for r := 0; r < rounds; r++ {
		for len(pw.inflight) > 0 {
			pw.deliver(pw.inflight[0].seq, true, false)
		}
		if done() {
			return
		}
		pw.tick(0)
		pw.tick(1)
	}
	for len(pw.inflight) > 0 {
		pw.deliver(pw.inflight[0].seq, true, false)
	}
}

// localWire is the wire address of a local candidate's socket.
func (pw *pairWorld) localWire(c Candidate) string {
	if c.Type() == CandidateTypeServerReflexive || c.Type() == CandidateTypeRelay {
		return c.addr().String()
	}
	for _, s := range pw.socks {
		if s.addr.String() == c.addr().String() {
			return pw.wireAddr(s)
		}
	}

	return c.addr().String()
}

func (pw *pairWorld) sockOfLocal(c Candidate) *vsock {
	if b, ok := c.(interface{ getConn() net.PacketConn }); ok {
		_ = b
	}
	for _, s := range pw.socks {
		if pw.wireAddr(s) == pw.localWire(c) {
			return s
		}
	}

	return nil
}

// bidirectional reports whether some (A socket, B socket) pair can exchange datagrams both ways.
func (pw *pairWorld) bidirectional() bool {
	for _, sa := range pw.side[0].socks {
		for _, sb := range pw.side[1].socks {
			if !pw.blocked[sa.name+">"+sb.name] && !pw.blocked[sb.name+">"+sa.name] && (pw.signalledPublic(sa) || pw.signalledPublic(sb)) {
				return true
			}
		}
	}

	return false
}

// signalledPublic: the address signalled for this socket's candidate is the one the world can reach it at
// (false for a host candidate behind a NAT: the peer only learns its private address).
func (pw *pairWorld) signalledPublic(s *vsock) bool {
	for _, sd := range pw.side {
		for i, sk := range sd.socks {
			if sk == s {
				return sd.cands[i].addr().String() == pw.wireAddr(s)
			}
		}
	}

	return false
}

func (pw *pairWorld) pairReachable(local Candidate, remoteAddr string) bool {
	ls := pw.sockOfLocal(local)
	rs := pw.byPublic[remoteAddr]
	if ls == nil || rs == nil {
		return false
	}

	return !pw.blocked[ls.name+">"+rs.name] && !pw.blocked[rs.name+">"+ls.name]
}

// ---------------------------------------------------------------- ledger plumbing (C03 oracle)

func (pw *pairWorld) sideOfSock(s *vsock) int {
	switch s.name[0] {
	case 'a':
		return 0
	case 'b':
		return 1
	}

	return -1
}

func (pw *pairWorld) ledgerSend(s *vsock, d dgram) {
	i := pw.sideOfSock(s)
	if i < 0 || pw.side[i] == nil || pw.side[i].agent == nil {
		return
	}
	a := pw.side[i].agent
	isReq, nominating := pw.ledgers[i].onSend(s.name, d.dst, d.data)
	if isReq && nominating && !a.isControlling.Load() {
		pw.problem("", "agent %s emitted a nomination (USE-CANDIDATE / nomination value) while in the controlled role: %s", pw.side[i].name, d.describe())
	}
	if isReq && a.lite && !a.isControlling.Load() {
		pw.problem("", "lite controlled agent %s originated a Binding request: %s", pw.side[i].name, d.describe())
	}
}

func (pw *pairWorld) ledgerDeliver(dst *vsock, src string, data []byte) {
	i := pw.sideOfSock(dst)
	if i < 0 || pw.side[i] == nil || pw.side[i].agent == nil {
		return
	}
	a := pw.side[i].agent
	pw.ledgers[i].onDeliver(dst.name, src, data, a.localUfrag, a.localPwd, a.remoteUfrag, a.remotePwd)
}

func (pw *pairWorld) sockNameOfLocal(c Candidate) string {
	if s := pw.sockOfLocal(c); s != nil {
		return s.name
	}

	return "?" + c.addr().String()
}

// checkSelections evaluates the selection oracle for both agents (call after every event).
func (pw *pairWorld) checkSelections() {
	for i, s := range pw.side {
		if s == nil || s.agent == nil {
			continue
		}
		if finding, msg := pw.ledgers[i].selectionVerdict(s.agent, pw.sockNameOfLocal); msg != "" {
			pw.problem(finding, "agent %s: %s", s.name, msg)
		}
	}
}

func candidateBaseOf(c Candidate) *candidateBase {
	switch v := c.(type) {
	case *CandidateHost:
		return &v.candidateBase
	case *CandidateServerReflexive:
		return &v.candidateBase
	case *CandidatePeerReflexive:
		return &v.candidateBase
	case *CandidateRelay:
		return &v.candidateBase
	}

	return nil
}
