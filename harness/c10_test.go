package ice

// C10 — agent state is only touched serially (task loop), engine CS fine mode on internal/taskloop.

import (
	"context"
	"errors"
	"fmt"

	"github.com/pion/ice/v4/internal/taskloop"
	"github.com/pion/ice/v4/internal/zzmc"
)

func init() {
	registerCheck("C10", checkC10)
	vReplayers["C10"] = csReplay
	csScenarios["taskloop-5"] = func() zzmc.Scenario { return c10scenario(true, true, true, true, true, 1) }
	csScenarios["taskloop-run-cancel-close"] = func() zzmc.Scenario { return c10scenario(false, true, true, true, false, 1) }
	csScenarios["taskloop-run-run-close"] = func() zzmc.Scenario { return c10scenario(true, false, false, true, false, 2) }
	csScenarios["taskloop-run-close-close"] = func() zzmc.Scenario { return c10scenario(true, false, false, true, true, 1) }
}

// c10scenario: threads R1 Run(bg), R2 Run(ctx2), X cancel(ctx2), K1 CloseWithPreStop then R3 Run, K2 Close.
func c10scenario(r1, r2, x, k1, k2 bool, r1tasks int) zzmc.Scenario {
	return zzmc.Scenario{
		Name:     "taskloop",
		Focus:    []string{"taskloop.go"},
		MaxSteps: 600,
		Setup: func(s *zzmc.Sched) func(string) (string, string) {
			fail := ""
			active := 0
			started, finished := map[string]int{}, map[string]int{}
			onCloseRuns, closeReturned, preStopRuns := 0, 0, 0
			startedAfterClose := false
			var l *taskloop.Loop
			body := func(name string) func(context.Context) {
				return func(context.Context) {
					if closeReturned > 0 {
						startedAfterClose = true
					}
					if onCloseRuns > 0 {
						fail += "TASK-STARTED-AFTER-ONCLOSE "
					}
					started[name]++
					active++
					if active > 1 {
						fail += "OVERLAP "
					}
					zzmc.HarnessPoint("task.body") // the task can be preempted in the middle
					active--
					finished[name]++
				}
			}
			results := map[string]string{}
			check := func(name string, err error) {
				switch {
				case err == nil && (started[name] != 1 || finished[name] != 1):
					fail += fmt.Sprintf("%s:NIL-BUT-RAN-%d/%d ", name, started[name], finished[name])
				case err != nil && started[name] != 0:
					fail += name + ":ERROR-BUT-RAN "
				}
				switch {
				case err == nil:
					results[name] = "ok"
				case errors.Is(err, taskloop.ErrClosed):
					results[name] = "closed"
				case errors.Is(err, context.Canceled):
					results[name] = "canceled"
				default:
					results[name] = err.Error()
					fail += name + ":UNEXPECTED-ERROR "
				}
			}
			ctx2, cancel2 := context.WithCancel(context.Background())
			l = taskloop.New(func() {
				onCloseRuns++
				if active != 0 {
					fail += "ONCLOSE-DURING-TASK "
				}
			})
			if r1 {
				s.Go("R1", func() {
					for i := 0; i < r1tasks; i++ {
						n := fmt.Sprintf("R1.%d", i)
						check(n, l.Run(context.Background(), body(n)))
					}
				})
			}
			if r2 {
				s.Go("R2", func() { check("R2", l.Run(ctx2, body("R2"))) })
			}
			if x {
				s.Go("X", func() { zzmc.HarnessPoint("cancel"); cancel2() })
			}
			if k1 {
				s.Go("K1", func() {
					l.CloseWithPreStop(func() {
						preStopRuns++
						select {
						case <-l.Done():
						default:
							fail += "PRESTOP-BEFORE-DONE "
						}
					})
					closeReturned++
					if onCloseRuns != 1 {
						fail += "CLOSE-RETURNED-BEFORE-ONCLOSE "
					}
					if active != 0 {
						fail += "CLOSE-RETURNED-DURING-TASK "
					}
					// a submission issued after Close has returned
					err := l.Run(context.Background(), body("R3"))
					check("R3", err)
					if !errors.Is(err, taskloop.ErrClosed) {
						fail += "RUN-AFTER-CLOSE-NOT-REFUSED "
					}
				})
			}
			if k2 {
				s.Go("K2", func() {
					l.Close()
					closeReturned++
					if onCloseRuns != 1 {
						fail += "CLOSE-RETURNED-BEFORE-ONCLOSE "
					}
				})
			}

			return func(dead string) (string, string) {
				if dead != "" {
					l.Close() // let the loop goroutine go, so that the bubble can end
					cancel2()
				}
				cancel2()
				if startedAfterClose {
					fail += "TASK-STARTED-AFTER-CLOSE-RETURNED "
				}
				if (k1 || k2) && onCloseRuns != 1 {
					fail += fmt.Sprintf("ONCLOSE-RAN-%d-TIMES ", onCloseRuns)
				}
				if k1 && preStopRuns > 1 {
					fail += fmt.Sprintf("PRESTOP-RAN-%d-TIMES ", preStopRuns)
				}
				if !k1 && !k2 {
					l.Close()
				}

				return fmt.Sprint(results), fail
			}
		},
	}
}

func checkC10(c *runCtx) {
	c.assume("sequential consistency between scheduling points (every channel, mutex, Once, WaitGroup, atomic operation and go statement of taskloop.go is a scheduling point; task bodies contain one more)",
		"the instrumented sources are behaviourally equivalent to the originals (translation check: the repository's test-suite passes on the instrumented build with the runtime passive)")
	dl := c01deadline(c, 120, 900)
	b := 2
	if !c.quick() {
		b = 3
	}
	csExplore(c, "taskloop-5", b, dl, nil)
	// three-thread subsets, deeper
	for _, n := range []string{"taskloop-run-cancel-close", "taskloop-run-run-close", "taskloop-run-close-close"} {
		csExplore(c, n, b+2, dl, nil)
	}
}
