package ice

// C10 — agent state is only touched serially (task loop), engine CS fine mode on internal/taskloop.

import (
	"context"
	"encoding/json"
	"errors"
	"fmt"
	"os"
	"strings"
	"time"

	"github.com/pion/stun/v3"

	"github.com/pion/ice/v4/internal/taskloop"
	"github.com/pion/ice/v4/internal/zzmc"
)

func init() {
	registerCheck("C10", checkC10)
	vReplayers["C10"] = csReplay
	csScenarios["taskloop-5"] = func() zzmc.Scenario { return c10scenario(true, true, true, true, true, 1) }
	csScenarios["taskloop-run-cancel-close"] = func() zzmc.Scenario { return c10scenario(false, true, true, true, false, 1) }
	csScenarios["taskloop-run-run-close"] = func() zzmc.Scenario { return c10scenario(true, false, false, true, false, 2) }
	csScenarios["taskloop-run-close-close"] = func() zzmc.Scenario { return c10scenario(true, false, false, true, true, 1) }
}

// c10scenario: threads R1 Run(bg), R2 Run(ctx2), X cancel(ctx2), K1 CloseWithPreStop then R3 Run, K2 Close.
func c10scenario(r1, r2, x, k1, k2 bool, r1tasks int) zzmc.Scenario {
	return zzmc.Scenario{
		Name:     "taskloop",
		Focus:    []string{"taskloop.go"},
		MaxSteps: 600,
		Setup: func(s *zzmc.Sched) func(string) (string, string) {
			fail := ""
			active := 0
			started, finished := map[string]int{}, map[string]int{}
			onCloseRuns, closeReturned, preStopRuns := 0, 0, 0
			startedAfterClose := false
			var l *taskloop.Loop
			body := func(name string) func(context.Context) {
				return func(context.Context) {
					if closeReturned > 0 {
						startedAfterClose = true
					}
					if onCloseRuns > 0 {
						fail += "TASK-STARTED-AFTER-ONCLOSE "
					}
					started[name]++
					active++
					if active > 1 {
						fail += "OVERLAP "
					}
					zzmc.HarnessPoint("task.body") // the task can be preempted in the middle
					active--
					finished[name]++
				}
			}
			results := map[string]string{}
			check := func(name string, err error) {
				switch {
				case err == nil && (started[name] != 1 || finished[name] != 1):
					fail += fmt.Sprintf("%s:NIL-BUT-RAN-%d/%d ", name, started[name], finished[name])
				case err != nil && started[name] != 0:
					fail += name + ":ERROR-BUT-RAN "
				}
				switch {
				case err == nil:
					results[name] = "ok"
				case errors.Is(err, taskloop.ErrClosed):
					results[name] = "closed"
				case errors.Is(err, context.Canceled):
					results[name] = "canceled"
				default:
					results[name] = err.Error()
					fail += name + ":UNEXPECTED-ERROR "
				}
			}
			ctx2, cancel2 := context.WithCancel(context.Background())
			l = taskloop.New(func() {
				onCloseRuns++
				if active != 0 {
					fail += "ONCLOSE-DURING-TASK "
				}
			})
			if r1 {
				s.Go("R1", func() {
					for i := 0; i < r1tasks; i++ {
						n := fmt.Sprintf("R1.%d", i)
						check(n, l.Run(context.Background(), body(n)))
					}
				})
			}
			if r2 {
				s.Go("R2", func() { check("R2", l.Run(ctx2, body("R2"))) })
			}
			if x {
				s.Go("X", func() { zzmc.HarnessPoint("cancel"); cancel2() })
			}
			if k1 {
				s.Go("K1", func() {
					l.CloseWithPreStop(func() {
						preStopRuns++
						select {
						case <-l.Done():
						default:
							fail += "PRESTOP-BEFORE-DONE "
						}
					})
					closeReturned++
					if onCloseRuns != 1 {
						fail += "CLOSE-RETURNED-BEFORE-ONCLOSE "
					}
					if active != 0 {
						fail += "CLOSE-RETURNED-DURING-TASK "
					}
					// a submission issued after Close has returned
					err := l.Run(context.Background(), body("R3"))
					check("R3", err)
					if !errors.Is(err, taskloop.ErrClosed) {
						fail += "RUN-AFTER-CLOSE-NOT-REFUSED "
					}
				})
			}
			if k2 {
				s.Go("K2", func() {
					l.Close()
					closeReturned++
					if onCloseRuns != 1 {
						fail += "CLOSE-RETURNED-BEFORE-ONCLOSE "
					}
				})
			}

			return func(dead string) (string, string) {
				if dead != "" {
					l.Close() // let the loop goroutine go, so that the bubble can end
					cancel2()
				}
				cancel2()
				if startedAfterClose {
					fail += "TASK-STARTED-AFTER-CLOSE-RETURNED "
				}
				if (k1 || k2) && onCloseRuns != 1 {
					fail += fmt.Sprintf("ONCLOSE-RAN-%d-TIMES ", onCloseRuns)
				}
				if k1 && preStopRuns > 1 {
					fail += fmt.Sprintf("PRESTOP-RAN-%d-TIMES ", preStopRuns)
				}
				if !k1 && !k2 {
					l.Close()
				}

				return fmt.Sprint(results), fail
			}
		},
	}
}

func checkC10(c *runCtx) {
	c.assume("sequential consistency between scheduling points (every channel, mutex, Once, WaitGroup, atomic operation and go statement of taskloop.go is a scheduling point; task bodies contain one more)",
		"the instrumented sources are behaviourally equivalent to the originals (translation check: the repository's test-suite passes on the instrumented build with the runtime passive)")
	dl := c01deadline(c, 240, 900)
	b := 2
	if !c.quick() {
		b = 3
	}
	csExplore(c, "taskloop-5", b, dl, nil)
	// three-thread subsets, deeper
	for _, n := range []string{"taskloop-run-cancel-close", "taskloop-run-run-close", "taskloop-run-close-close"} {
		csExplore(c, n, b+2, dl, nil)
	}
	// coarse mode on a live agent: call/return histories of three concurrent API users against a sequential reference
	csExplore(c, "api-linearizable", b, dl, nil)
	// coarse mode: no two mutators are inside the agent at once (application callbacks as overlap detectors)
	csExplore(c, "api-mutators-overlap", b, dl, nil)
	// coarse mode with ownership tracking: every public method, in every phase of a session, against the lockset discipline
	for _, role := range []string{"controlling", "controlled"} {
		csExplore(c, "api-ownership-"+role, b-1, dl, nil)
	}
	// overlapping Close calls on a live agent with a task in flight: whichever returns, the loop has finished
	csExplore(c, "api-close-vs-close", b, dl, nil)
	// application data on a candidate's socket while Restart / Close removes that candidate inside a task
	csExplore(c, "api-restart-vs-data", b+1, dl, nil)
	csExplore(c, "api-close-vs-data", b+1, dl, nil)
	// two concurrent starts: exactly one wins, the other is refused, and the agent is what the winner made it
	csExplore(c, "api-start-vs-start", b, dl, nil)
	// the gathering paths (GatherCandidates, the gather goroutines, Restart cancelling them) under the same discipline
	for _, n := range []string{"gather-vs-restart", "gather-vs-gather", "gather-vs-gather-vs-restart", "gather-srflx-vs-restart", "gather-vs-close", "gather-srflx-vs-close"} {
		csExplore(c, n, b, dl, nil)
	}
	// what the getters hand out are snapshots: kept results never change under later operations (explicit-state search)
	{
		p := newVTPool()
		depth := 5
		if !c.quick() {
			depth = 6
		}
		for _, role := range []string{"controlling", "controlled"} {
			vtSearch(c, p, vtSpec{Name: fmt.Sprintf("results of the collection getters are snapshots, %s, all sequences of length <= %d with <= 2 calls", role, depth), Model: "snapshots",
				Cfg: soloCfg{Role: role, Depth: depth}, Deadline: dl})
		}
		p.close()
	}
	c10racePass(c)
}

// c10racePass folds in the result of the auxiliary pass (bin/check runs harness/race_test.go in a -race build,
// free running, before this process starts). Only its alarms count: a reported data race is a real one.
func c10racePass(c *runCtx) {
	raw := os.Getenv("VERIF_RACE_RESULT")
	if raw == "" {
		c.set("aux_race_pass", "not run")

		return
	}
	var r struct {
		Races     int    `json:"races"`
		Completed bool   `json:"completed"`
		Report    string `json:"report"`
		First     string `json:"first"`
	}
	if err := json.Unmarshal([]byte(raw), &r); err != nil {
		c.engineError("race pass result: %v", err)

		return
	}
	c.set("aux_race_pass", map[string]any{"data_races_reported": r.Races, "completed": r.Completed,
		"what": "8 API users + environment + readers on a live pair of agents, free running, -race build, 3 rounds; auxiliary, its silence is not evidence"})
	if r.Races > 0 {
		c.violation("", fmt.Sprintf("the race detector reports %d data race(s) while the public API is used from several goroutines; first: %s", r.Races, r.First),
			map[string]any{"engine": "race", "report": r.Report})
	} else if !r.Completed {
		c.engineError("race pass did not complete (report %s)", r.Report)
	}
}

// ---------------------------------------------------------------- coarse mode: linearizability of the public API

type linOp struct {
	thread     int
	name       string
	arg1, arg2 string
	res        string
	call, ret  int
}

type linState struct{ lu, lp, ru, rp string }

// linApply is the sequential reference: credentials as the documentation describes them.
func linApply(st linState, op linOp) (linState, string) {
	switch op.name {
	case "SetRemoteCredentials":
		st.ru, st.rp = op.arg1, op.arg2

		return st, "<nil>"
	case "GetRemoteUserCredentials":
		return st, st.ru + "/" + st.rp
	case "Restart":
		st.lu, st.lp, st.ru, st.rp = op.arg1, op.arg2, "", ""

		return st, "<nil>"
	case "GetLocalUserCredentials":
		return st, st.lu + "/" + st.lp
	}
	panic("op " + op.name)
}

// linearizable: is there a total order consistent with real time in which every result matches the reference?
func linearizable(init linState, ops []linOp) bool {
	n := len(ops)
	used := make([]bool, n)
	var rec func(st linState, done int) bool
	rec = func(st linState, done int) bool {
		if done == n {
			return true
		}
		for i := 0; i < n; i++ {
			if used[i] {
				continue
			}
			// op i may come next only if no unused op returned before op i was called
			ok := true
			for j := 0; j < n; j++ {
				if !used[j] && j != i && ops[j].ret < ops[i].call {
					ok = false

					break
				}
			}
			if !ok {
				continue
			}
			st2, want := linApply(st, ops[i])
			if want != ops[i].res {
				continue
			}
			used[i] = true
			if rec(st2, done+1) {
				return true
			}
			used[i] = false
		}

		return false
	}

	return rec(init, 0)
}

func init() {
	csScenarios["api-linearizable"] = c10linearizable
}

func c10linearizable() zzmc.Scenario {
	return zzmc.Scenario{
		Name:     "api-linearizable",
		Focus:    []string{"taskloop.go"},
		MaxSteps: 4000,
		Setup: func(s *zzmc.Sched) func(string) (string, string) {
			a, err := NewAgentWithOptions(WithNet(vNet{}), WithMulticastDNSMode(MulticastDNSModeDisabled), WithNetworkTypes([]NetworkType{NetworkTypeUDP4}),
				WithCandidateTypes([]CandidateType{CandidateTypeHost}), WithLocalCredentials(vUfragA, vPwdA), WithLoggerFactory(nopFactory{}))
			if err != nil {
				panic(err)
			}
			clock := 0
			var ops []linOp
			do := func(th int, name, a1, a2 string, f func() string) {
				clock++
				op := linOp{thread: th, name: name, arg1: a1, arg2: a2, call: clock}
				op.res = f()
				clock++
				op.ret = clock
				ops = append(ops, op)
			}
			creds := func(u, p string, e error) string {
				if e != nil {
					return e.Error()
				}

				return u + "/" + p
			}
			s.Go("T1", func() {
				do(1, "SetRemoteCredentials", "remoteU1", "remotePwd1remotePwd1remotePwd1", func() string {
					return fmt.Sprint(a.SetRemoteCredentials("remoteU1", "remotePwd1remotePwd1remotePwd1"))
				})
				do(1, "GetRemoteUserCredentials", "", "", func() string { return creds(a.GetRemoteUserCredentials()) })
			})
			s.Go("T2", func() {
				do(2, "Restart", "localU2xx", "localPwd2localPwd2localPwd2xx", func() string { return fmt.Sprint(a.Restart("localU2xx", "localPwd2localPwd2localPwd2xx")) })
				do(2, "GetLocalUserCredentials", "", "", func() string { return creds(a.GetLocalUserCredentials()) })
			})
			s.Go("T3", func() {
				do(3, "GetRemoteUserCredentials", "", "", func() string { return creds(a.GetRemoteUserCredentials()) })
				do(3, "SetRemoteCredentials", "remoteU3", "remotePwd3remotePwd3remotePwd3", func() string {
					return fmt.Sprint(a.SetRemoteCredentials("remoteU3", "remotePwd3remotePwd3remotePwd3"))
				})
			})

			return func(dead string) (string, string) {
				fail := ""
				if len(ops) != 6 && dead == "" {
					fail += fmt.Sprintf("ONLY-%d-OF-6-CALLS-RETURNED ", len(ops))
				}
				if !linearizable(linState{lu: vUfragA, lp: vPwdA}, ops) {
					fail += fmt.Sprintf("NOT-LINEARIZABLE %+v ", ops)
				}
				var sig []string
				for _, o := range ops {
					sig = append(sig, fmt.Sprintf("%d:%s=%s", o.thread, o.name[:4], o.res))
				}
				_ = a.Close()

				return fmt.Sprint(sig), fail
			}
		},
	}
}

// c10overlap: two users call RenominateCandidate while a third task runs on the loop. The nomination value
// generator (an application callback invoked in the middle of RenominateCandidate) and the task body are overlap
// detectors: if the agent's mutators are serialised none of them can be active while another is.
func init() {
	csScenarios["api-mutators-overlap"] = c10overlap
}

func c10overlap() zzmc.Scenario {
	return zzmc.Scenario{
		Name:     "api-mutators-overlap",
		Focus:    []string{"taskloop.go"},
		MaxSteps: 4000,
		Setup: func(s *zzmc.Sched) func(string) (string, string) {
			fail := ""
			active, gens := 0, uint32(0)
			enter := func(who string) {
				active++
				if active > 1 {
					fail += "OVERLAP-IN-" + who + " "
				}
				zzmc.HarnessPoint("inside " + who)
				active--
			}
			a, err := NewAgentWithOptions(WithNet(vNet{}), WithMulticastDNSMode(MulticastDNSModeDisabled), WithNetworkTypes([]NetworkType{NetworkTypeUDP4}),
				WithCandidateTypes([]CandidateType{CandidateTypeHost}), WithLocalCredentials(vUfragA, vPwdA), WithLoggerFactory(nopFactory{}),
				WithRenomination(func() uint32 {
					enter("generator")
					gens++

					return gens
				}))
			if err != nil {
				panic(err)
			}
			a.remoteUfrag, a.remotePwd = vUfragB, vPwdB
			a.isControlling.Store(true)
			local, _ := NewCandidateHost(&CandidateHostConfig{Network: "udp", Address: "10.0.0.1", Port: 4000, Component: 1})
			remote, _ := NewCandidateHost(&CandidateHostConfig{Network: "udp", Address: "10.0.0.2", Port: 5000, Component: 1})
			w := newWorld()
			local.conn = w.newSock("a0", "10.0.0.1", 4000, "")
			a.addPair(local, remote).state = CandidatePairStateSucceeded
			res := map[string]string{}
			s.Go("T1", func() { r := fmt.Sprint(a.RenominateCandidate(local, remote)); csRec(func() { res["T1"] = r }) })
			s.Go("T2", func() { r := fmt.Sprint(a.RenominateCandidate(local, remote)); csRec(func() { res["T2"] = r }) })
			s.Go("T3", func() {
				r := fmt.Sprint(a.loop.Run(a.loop, func(context.Context) { enter("task") }))
				csRec(func() { res["T3"] = r })
			})

			return func(dead string) (string, string) {
				if dead == "" && (gens != 2 || a.latestRenominationValue != 2) {
					fail += fmt.Sprintf("GENERATOR-RAN-%d-LATEST-%d ", gens, a.latestRenominationValue)
				}
				for _, r := range res {
					if r != "<nil>" {
						fail += "CALL-FAILED-" + r + " "
					}
				}
				_ = a.Close()

				return fmt.Sprint(res, len(w.sentLog)), fail
			}
		},
	}
}

// ---------------------------------------------------------------- coarse mode: ownership of the agent's fields

// The instrumented build reports every access to a field of *Agent (zzmc.Access). From the moment the agent
// is handed to the application until its loop has ended, a field that is written must keep a lock common to
// all its accesses, where running on the agent's loop goroutine counts as holding the loop's lock (lockset
// discipline). One application thread calls every public method in every phase of a session (started,
// connected, restarted, closed) while the scripted peer's traffic and the ticks are processed concurrently.
func init() {
	csScenarios["api-ownership-controlling"] = func() zzmc.Scenario { return c10ownership("controlling") }
	csScenarios["api-ownership-controlled"] = func() zzmc.Scenario { return c10ownership("controlled") }
}

func c10ownership(role string) zzmc.Scenario {
	return zzmc.Scenario{
		Name:     "api-ownership-" + role,
		Focus:    []string{"taskloop.go"},
		MaxSteps: 20000,
		TimeStep: time.Millisecond,
		MaxAdv:   2000,
		Setup: func(s *zzmc.Sched) func(string) (string, string) {
			raw, _ := json.Marshal(soloCfg{Role: role, Locals: 2, Remotes: 2, Renom: true})
			sw := newSoloWorld(raw)
			sw.onSend, sw.onDeliver = nil, nil // the ledger is not used here (and is not meant for concurrent use)
			a, conn := sw.x.agent, sw.x.conn
			zzmc.OwnStart("*ice.Agent", "taskloop.go:", "*ice.CandidatePair", "*ice.candidateBase")
			calls := 0
			sel := "no selection before the restart"
			api := func(phase string) {
				rc, _ := NewCandidateHost(&CandidateHostConfig{Network: "udp", Address: "10.0.1.9", Port: 2900 + len(phase), Component: 1})
				for _, f := range []func(){
					func() { _, _ = a.GetLocalCandidates() },
					func() { _, _ = a.GetRemoteCandidates() },
					func() { _, _ = a.GetSelectedCandidatePair() },
					func() { _ = a.GetCandidatePairsStats() },
					func() { _, _ = a.GetSelectedCandidatePairStats() },
					func() { _ = a.GetLocalCandidatesStats() },
					func() { _ = a.GetRemoteCandidatesStats() },
					func() { _, _, _ = a.GetLocalUserCredentials() },
					func() { _, _, _ = a.GetRemoteUserCredentials() },
					func() { _, _ = a.GetGatheringState() },
					func() { _ = a.AddRemoteCandidate(rc) },
					func() { _ = a.OnConnectionStateChange(func(ConnectionState) {}) },
					func() { _ = a.OnSelectedCandidatePairChange(func(Candidate, Candidate) {}) },
					func() { _ = a.OnCandidate(func(Candidate) {}) },
					func() { _ = a.UpdateOptions(WithKeepaliveInterval(3 * time.Second)) },
					func() { _ = a.SetRemoteCredentials(sw.peerUfrag, sw.peerPwd) },
					func() {
						l, r := Candidate(sw.x.cands[0]), Candidate(sw.rcands[0])
						if sp, _ := a.GetSelectedCandidatePair(); sp != nil {
							l, r = sp.Local, sp.Remote
						}
						_ = a.RenominateCandidate(l, r)
					},
					func() { _, _ = conn.Write([]byte("application data")) },
					func() {
						for _, in := range conn.GetCandidatePairsInfo() {
							_, _ = conn.WriteToPair(in.ID, []byte("application data"))

							break
						}
					},
					func() { _, _ = conn.LocalAddr(), conn.RemoteAddr() },
					func() { _, _ = conn.BytesSent(), conn.BytesReceived() },
					func() { _ = conn.SetDeadline(time.Time{}) },
					func() {
						ctx, cancel := context.WithCancel(context.Background())
						cancel()
						_ = a.AwaitConnect(ctx)
					},
				} {
					f()
					calls++
				}
			}
			answer := func() {
				sw.mu.Lock()
				pend := sw.pendingOut()
				sw.inflight = nil
				sw.mu.Unlock()
				for _, d := range pend {
					for _, sock := range sw.x.socks {
						if sock.name == d.srcSock {
							sock.in <- rxPacket{d.dst, sw.peerResponse(d.data, stun.ClassSuccessResponse, "", d.src)}
						}
					}
				}
			}
			s.Go("APP", func() {
				api("started")
				// the session proceeds while the application keeps calling
				for round := 0; round < 3; round++ {
					sw.x.contact()
					if role == "controlled" {
						sw.x.socks[0].in <- rxPacket{sw.remotes[0].addr.String(), sw.peerRequest(peerReqOpts{uc: round > 0, nom: -1})}
					}
					answer()
					api(fmt.Sprintf("round%d", round))
					settle()
				}
				api("settled")
				if a.getSelectedPair() != nil {
					sel = "connected before the restart"
				}
				_ = a.Restart("", "")
				api("restarted")
				_ = a.Close()
				api("closed")
			})

			return func(dead string) (string, string) {
				reports, n := zzmc.OwnStop()
				if dead != "" {
					_ = a.Close()
				}
				_ = n // (the number of recorded accesses depends on how far the free-running receive loops got: not an outcome)

				return fmt.Sprintf("%d calls, %s", calls, sel), strings.Join(reports, "; ")
			}
		},
	}
}

// c10startRace: StartDial and StartAccept called concurrently (a third thread reads the role while they run).
// A start is one operation: exactly one call succeeds, the other gets ErrMultipleStart, and role and remote
// credentials are those of the successful call.
func init() {
	csScenarios["api-start-vs-start"] = c10startRace
}

func c10startRace() zzmc.Scenario {
	return zzmc.Scenario{
		Name:     "api-start-vs-start",
		Focus:    []string{"taskloop.go"},
		MaxSteps: 4000,
		Setup: func(s *zzmc.Sched) func(string) (string, string) {
			a, err := NewAgentWithOptions(WithNet(vNet{}), WithMulticastDNSMode(MulticastDNSModeDisabled), WithNetworkTypes([]NetworkType{NetworkTypeUDP4}),
				WithCandidateTypes([]CandidateType{CandidateTypeHost}), WithLocalCredentials(vUfragA, vPwdA), WithLoggerFactory(nopFactory{}))
			if err != nil {
				panic(err)
			}
			// one slot per thread: the tails of two calls may run side by side (the second start waits on a mutex of the agent)
			var dialConn, acceptConn *Conn
			var dialErr, acceptErr error
			s.Go("DIAL", func() { dialConn, dialErr = a.StartDial("remoteUfragD", "remotePwdDremotePwdDremotePwdD") })
			s.Go("ACCEPT", func() { acceptConn, acceptErr = a.StartAccept("remoteUfragA", "remotePwdAremotePwdAremotePwdA") })

			return func(dead string) (string, string) {
				fail := ""
				won := ""
				res := map[string]error{"DIAL": dialErr, "ACCEPT": acceptErr}
				conns := map[string]*Conn{"DIAL": dialConn, "ACCEPT": acceptConn}
				for _, n := range []string{"DIAL", "ACCEPT"} {
					switch {
					case res[n] == nil && conns[n] != nil:
						if won != "" {
							fail += "BOTH-STARTS-SUCCEEDED "
						}
						won = n
					case errors.Is(res[n], ErrMultipleStart):
					default:
						fail += fmt.Sprintf("%s-RETURNED-%v ", n, res[n])
					}
				}
				if won == "" && dead == "" {
					fail += "NO-START-SUCCEEDED "
				}
				ru, _, _ := a.GetRemoteUserCredentials()
				if won == "DIAL" && (!a.isControlling.Load() || ru != "remoteUfragD") {
					fail += fmt.Sprintf("DIAL-WON-BUT-CONTROLLING=%v-REMOTE=%s ", a.isControlling.Load(), ru)
				}
				if won == "ACCEPT" && (a.isControlling.Load() || ru != "remoteUfragA") {
					fail += fmt.Sprintf("ACCEPT-WON-BUT-CONTROLLING=%v-REMOTE=%s ", a.isControlling.Load(), ru)
				}
				_ = a.Close()

				return "won=" + won, fail
			}
		},
	}
}

// c10closeRace: Close, GracefulClose and Conn.Close overlap while a task is running on the agent's loop. When any of them
// returns, no task is running, none starts afterwards, and the close callback has run (the agent's state is Closed).
func init() {
	csScenarios["api-close-vs-close"] = c10closeRace
}

func c10closeRace() zzmc.Scenario {
	return zzmc.Scenario{
		Name:     "api-close-vs-close",
		Focus:    []string{"taskloop.go", "agent_handlers.go"}, // the closers also meet in the three notifiers
		MaxSteps: 4000,
		Setup: func(s *zzmc.Sched) func(string) (string, string) {
			a, err := NewAgentWithOptions(WithNet(vNet{}), WithMulticastDNSMode(MulticastDNSModeDisabled), WithNetworkTypes([]NetworkType{NetworkTypeUDP4}),
				WithCandidateTypes([]CandidateType{CandidateTypeHost}), WithLocalCredentials(vUfragA, vPwdA), WithLoggerFactory(nopFactory{}))
			if err != nil {
				panic(err)
			}
			conn, err := a.StartAccept(vUfragB, vPwdB)
			if err != nil {
				panic(err)
			}
			fail := ""
			active, closesReturned, startedAfter := 0, 0, 0
			task := func(context.Context) {
				if closesReturned > 0 {
					startedAfter++
				}
				active++
				zzmc.HarnessPoint("task.body")
				active--
			}
			returned := func(who string, err error) {
				closesReturned++
				if err != nil {
					fail += who + "-RETURNED-" + err.Error() + " "
				}
				if active != 0 {
					fail += who + "-RETURNED-WHILE-A-TASK-WAS-RUNNING "
				}
				if st := a.connectionState; st != ConnectionStateClosed {
					fail += fmt.Sprintf("%s-RETURNED-BEFORE-THE-CLOSE-CALLBACK(state %s) ", who, st)
				}
			}
			s.Go("T1", func() { _ = a.loop.Run(a.loop, task) })
			s.Go("T2", func() { _ = a.loop.Run(a.loop, task) })
			s.Go("K1", func() { returned("Close", a.Close()) })
			s.Go("K2", func() { returned("GracefulClose", a.GracefulClose()) })
			s.Go("K3", func() { returned("Conn.Close", conn.Close()) })

			return func(dead string) (string, string) {
				if dead != "" {
					_ = a.Close()
				}
				if startedAfter > 0 {
					fail += fmt.Sprintf("%d-TASK(S)-STARTED-AFTER-A-CLOSE-HAD-RETURNED ", startedAfter)
				}
				if closesReturned != 3 && dead == "" {
					fail += fmt.Sprintf("ONLY-%d-OF-3-CLOSE-CALLS-RETURNED ", closesReturned)
				}

				return fmt.Sprint("closes=", closesReturned), fail
			}
		},
	}
}
