package ice

// A small stateless explorer over "environment answers": every call to choose(n)
// is a choice point with n alternatives; the default answer is 0. exploreChoices
// enumerates every choice sequence (optionally with at most maxDev non-default
// answers) by re-running the body from scratch — depth-first, deterministic.

type chooser struct {
	prefix []int
	trace  []int
	widths []int
}

func (ch *chooser) choose(n int) int {
	if n <= 0 {
		panic("choose: no alternatives")
	}
	i := len(ch.trace)
	c := 0
	if i < len(ch.prefix) {
		c = ch.prefix[i]
		if c >= n {
			panic("choose: replay divergence (choice out of range)")
		}
	}
	ch.trace = append(ch.trace, c)
	ch.widths = append(ch.widths, n)

	return c
}

// exploreChoices returns the number of executions. maxDev < 0 means unbounded.
// cap > 0 limits executions (returns capped=true when hit).
func exploreChoices(maxDev, limit int, body func(ch *chooser)) (execs int, capped bool) {
	stack := [][]int{{}}
	for len(stack) > 0 {
		prefix := stack[len(stack)-1]
		stack = stack[:len(stack)-1]
		ch := &chooser{prefix: prefix}
		body(ch)
		execs++
		if limit > 0 && execs >= limit {
			return execs, true
		}
		dev := 0
		for _, c := range prefix {
			if c != 0 {
				dev++
			}
		}
		// alternatives at every point after the prefix
		d := dev
		var add [][]int
		for i := len(prefix); i < len(ch.trace); i++ {
			// trace[i] is 0 here (default) for i >= len(prefix)
			if maxDev >= 0 && d+1 > maxDev {
				break
			}
			for alt := 1; alt < ch.widths[i]; alt++ {
				p := make([]int, i+1)
				copy(p, ch.trace[:i])
				p[i] = alt
				add = append(add, p)
			}
		}
		// push in reverse so that the simplest alternative is explored first
		for i := len(add) - 1; i >= 0; i-- {
			stack = append(stack, add[i])
		}
	}

	return execs, false
}
