package ice

// The selection ledger: the harness's own record, taken from the fake network, of which of an agent's
// transactions were answered on which (local socket, remote address) pair and which nominations were
// delivered on which pair. The C03 oracle compares every change of the selected pair against it.

import (
	"fmt"
	"sort"
	"strings"

	"github.com/pion/stun/v3"
)

type ledgerTx struct {
	sock  string // local socket the request left through
	dst   string // destination address
	uc    bool
	nom   int
	state string // "pending" | "answered" | "answered-elsewhere"
}

type ledger struct {
	txs        map[[stun.TransactionIDSize]byte]*ledgerTx
	answered   map[string]bool // "sock|remote": a transaction of the agent on exactly that pair was answered (signed, matched, from dst, to sock)
	answeredUC map[string]bool // ... and that transaction carried USE-CANDIDATE
	misrouted  map[string]bool // "sock|remote": a signed matched response arrived at this socket although the request left through another
	nominated  map[string]bool // "sock|remote": an authenticated request with USE-CANDIDATE / nomination value was delivered on that pair
	lastSel    string
	selPrio    uint64
	lastEvtUC  map[string]string // "sock|remote" -> "plain" (USE-CANDIDATE without value) | "valued"
}

func newLedger() *ledger {
	return &ledger{txs: map[[stun.TransactionIDSize]byte]*ledgerTx{}, answered: map[string]bool{}, answeredUC: map[string]bool{},
		misrouted: map[string]bool{}, nominated: map[string]bool{}, lastEvtUC: map[string]string{}}
}

func (l *ledger) reset() {
	*l = *newLedger()
}

func (l *ledger) summary() string {
	var parts []string
	for k := range l.answered {
		s := "ans:" + k
		if l.answeredUC[k] {
			s += "+uc"
		}
		parts = append(parts, s)
	}
	for k := range l.nominated {
		parts = append(parts, "nom:"+k)
	}
	for k := range l.misrouted {
		parts = append(parts, "mis:"+k)
	}
	for k, v := range l.lastEvtUC {
		parts = append(parts, "kind:"+k+"="+v)
	}
	sort.Strings(parts)

	return strings.Join(parts, ",")
}

// onSend records a datagram emitted by the agent's socket.
func (l *ledger) onSend(sock, dst string, data []byte) (isRequest, hasUC bool) {
	si := describeSTUN(data)
	if !si.isSTUN || si.method != "Binding" || si.class != "request" {
		return false, false
	}
	l.txs[si.tx] = &ledgerTx{sock: sock, dst: dst, uc: si.uc, nom: si.nom, state: "pending"}

	return true, si.uc || si.nom >= 0
}

// onDeliver records a datagram delivered to the agent's socket sock from wire source src.
// localUfrag/localPwd/remoteUfrag/remotePwd are the credentials in force at the agent (current generation).
func (l *ledger) onDeliver(sock, src string, data []byte, localUfrag, localPwd, remoteUfrag, remotePwd string) {
	si := describeSTUN(data)
	if !si.isSTUN || si.method != "Binding" {
		return
	}
	m := &stun.Message{Raw: append([]byte{}, data...)}
	if m.Decode() != nil {
		return
	}
	key := sock + "|" + src
	switch si.class {
	case "success response":
		if stun.MessageIntegrity([]byte(remotePwd)).Check(m) != nil {
			return
		}
		tx, ok := l.txs[si.tx]
		if !ok || tx.state != "pending" || tx.dst != src {
			return
		}
		if tx.sock != sock {
			l.misrouted[key] = true
			tx.state = "answered-elsewhere"

			return
		}
		tx.state = "answered"
		l.answered[key] = true
		if tx.uc {
			l.answeredUC[key] = true
		}
	case "request":
		if si.user != localUfrag+":"+remoteUfrag || stun.MessageIntegrity([]byte(localPwd)).Check(m) != nil {
			return
		}
		if si.uc || si.nom >= 0 {
			l.nominated[key] = true
			// the kind of the latest nominating request on this pair decides which rule applies to it
			if si.nom >= 0 {
				l.lastEvtUC[key] = "valued"
			} else {
				l.lastEvtUC[key] = "plain"
			}
		}
	}
}

// selectionVerdict is called after every event with the agent's current selection.
// It returns a problem description ("" when fine) and the finding id that explains it, if any.
func (l *ledger) selectionVerdict(a *Agent, sockOf func(Candidate) string) (finding, problem string) {
	sp := a.getSelectedPair()
	cur := ""
	var prio uint64
	if sp != nil {
		cur = sockOf(sp.Local) + "|" + sp.Remote.addr().String()
		prio = sp.priority()
	}
	prev, prevPrio := l.lastSel, l.selPrio
	l.lastSel, l.selPrio = cur, prio
	if cur == prev || cur == "" {
		return "", ""
	}
	lite := a.lite
	controlling := a.isControlling.Load()
	switch {
	case controlling:
		if !l.answeredUC[cur] {
			if l.misrouted[cur] {
				return "S3", fmt.Sprintf("controlling agent selected %s: the only matched response for it was an answer to a request sent from another local socket", cur)
			}

			return "", fmt.Sprintf("controlling agent selected %s without an answered USE-CANDIDATE transaction of its own on that pair (ledger: %s)", cur, l.summary())
		}
	case lite:
		if !l.nominated[cur] {
			return "", fmt.Sprintf("lite controlled agent selected %s without an authenticated nomination delivered on that pair (ledger: %s)", cur, l.summary())
		}
	default:
		if !l.nominated[cur] {
			return "", fmt.Sprintf("controlled agent selected %s without an authenticated nomination delivered on that pair (ledger: %s)", cur, l.summary())
		}
		if !l.answered[cur] {
			if l.misrouted[cur] {
				return "S3", fmt.Sprintf("controlled agent selected %s: the only matched response for it was an answer to a request sent from another local socket", cur)
			}

			return "", fmt.Sprintf("controlled agent selected %s without an answered connectivity check of its own on that pair (ledger: %s)", cur, l.summary())
		}
	}
	if prev != "" && !controlling && (!lite || a.enableUseCandidateCheckPriority) && l.lastEvtUC[cur] == "plain" && prio < prevPrio {
		return "", fmt.Sprintf("plain USE-CANDIDATE moved the selection from %s (priority %d) down to %s (priority %d)", prev, prevPrio, cur, prio)
	}

	return "", ""
}
